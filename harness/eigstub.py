"""Certificate-based contracts for np.linalg.eig (part of the claim of every harness that installs one).

The harness supplies a spectral decomposition of the matrix the code is about to hand to LAPACK:
   M = sum_k lam_k e_k e_k^T + lam_rest (I - sum_k e_k e_k^T),  e_k orthonormal.
Both facts are *checked by the solver on the matrix the real code built* (obligations `eig certificate: ...`).
Given them, linear algebra says: M is symmetric, its eigenvalues are lam_k (simple if distinct from the others) and
lam_rest; a unit eigenvector of a simple eigenvalue lam_k is +-e_k. The contract returns the eigenvalues in an
arbitrary cyclic order (forked), +-e_k (symbolic sign) for simple eigenvalues and unconstrained fresh symbols for the
columns of repeated eigenvalues.
"""
import numpy as np
from fractions import Fraction as Fr
from symnp import core, proxy
from symnp.core import SR, CTX


def certified_eig(h, pairs, lam_rest, n=4, tag='eig'):
    """pairs: list of (lam, e_vector) for simple eigenvalues (lam concrete number or SR)"""
    def stub(M):
        M = np.asarray(M)
        E = [np.asarray(e) for _, e in pairs]
        # certificate obligations
        S = np.zeros((n, n), dtype=object)
        P = np.zeros((n, n), dtype=object)
        for (lam, _), e in zip(pairs, E):
            S = S + lam * np.outer(e, e)
            P = P + np.outer(e, e)
        I = np.identity(n).astype(object)
        S = S + lam_rest * (I - P)
        h.check(f'{tag} certificate: M == sum lam_k e_k e_k^T + lam_rest (I - P)', h.eq(M, S))
        for i in range(len(E)):
            for j in range(i, len(E)):
                h.check(f'{tag} certificate: e{i}.e{j} == {1 if i == j else 0}',
                        h.eq(sum(E[i][k] * E[j][k] for k in range(n)), 1.0 if i == j else 0.0))
        m = len(pairs)
        lams = [lam for lam, _ in pairs] + [lam_rest] * (n - m)
        cols = []
        for (lam, _), e in zip(pairs, E):
            s = core.fresh_sign('eigsign')
            cols.append(np.array([s * x for x in e], dtype=object))
        for k in range(n - m):
            cols.append(np.array([core.fresh_real('eigfree') for _ in range(n)], dtype=object))
        r = core.choose(n, tag)
        order = [(i + r) % n for i in range(n)]
        w = np.array([lams[i] for i in order], dtype=object)
        if not proxy.has_sym(w):
            w = w.astype(float)
        V = np.array([cols[i] for i in order], dtype=object).T
        CTX.events.append(('stub', f'{tag}: certified eig contract, rotation {r}'))
        return w, V
    return stub


def install_itzhack(h, q, version):
    if not h.sym:
        return
    w, x, y, z = q
    e = np.array([x, y, z, -w], dtype=object)
    if version == 1:
        f = np.array([y, -x, w, z], dtype=object)
        proxy.STUBS.eig = certified_eig(h, [(1.0, e), (-1.0, f)], 0.0, tag='eigK2')
    else:
        proxy.STUBS.eig = certified_eig(h, [(1.0, e)], Fr(-1, 3), tag='eigK3')
