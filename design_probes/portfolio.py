import subprocess, tempfile, os, time, z3
def run_portfolio(cons, tmo=60, tag='q'):
    s=z3.Solver()
    for c in cons: s.add(c)
    txt="(set-logic QF_UFNRA)\n"+s.to_smt2().replace("(set-info :status unknown)","")
    fn=f'/tmp/probe/pf_{tag}.smt2'; open(fn,'w').write(txt)
    procs={}
    cmds={'z3new':['z3-new',f'-T:{tmo}',fn],'z3old':['/usr/bin/z3',f'-T:{tmo}',fn],'cvc5':['cvc5',f'--tlimit={tmo*1000}',fn]}
    t0=time.time()
    for k,c in cmds.items(): procs[k]=subprocess.Popen(c,stdout=subprocess.PIPE,stderr=subprocess.STDOUT,text=True)
    res={}
    for k,p in procs.items():
        try: out,_=p.communicate(timeout=tmo+5)
        except subprocess.TimeoutExpired: p.kill(); out='timeout'
        res[k]=(out.strip().split('\n')[0][:40], round(time.time()-t0,1))
    return res
