"""symnp numpy proxy: the object bound to the module global `np` of every ahrs module while the real
code is executed symbolically. Data movement is real NumPy on dtype=object arrays; element-wise maths
and LAPACK calls are modelled here (part of the trusted base, validated by the fidelity test)."""
import builtins
import itertools
import math

import numpy as _np
import z3

from . import core, trig
from .core import CTX, SR, SymBool, SymnpUnsupported, lift


def has_sym(a):
    if isinstance(a, (SR, SymBool)):
        return True
    if isinstance(a, _np.ndarray):
        if a.dtype != object:
            return False
        return any(isinstance(e, (SR, SymBool)) for e in a.flat)
    if isinstance(a, (list, tuple)):
        return any(has_sym(e) for e in a)
    return False


def _obj(a):
    """numeric array-like -> object ndarray (floats stay python floats)"""
    if isinstance(a, _np.ndarray):
        if a.dtype == object:
            return a
        if a.dtype.kind in 'fiu':
            return a.astype(object)
        return a
    if isinstance(a, (SR, SymBool)):
        r = _np.empty((), dtype=object)
        r[()] = a
        return r
    arr = _np.array(a, dtype=object) if has_sym(a) else _np.array(a)
    if arr.dtype.kind in 'fiu':
        arr = arr.astype(object)
    return arr


def _unwrap0(r):
    if isinstance(r, _np.ndarray) and r.ndim == 0 and r.dtype == object:
        r = r[()]
    if type(r) is builtins.float:
        return _np.float64(r)       # concrete scalar results keep NumPy's scalar type (methods such as .copy())
    return r


def _conc(a):
    """object array without symbols -> float array"""
    if isinstance(a, _np.ndarray) and a.dtype == object:
        return a.astype(builtins.float)
    return a


def _elementwise(fn, nin):
    uf = _np.frompyfunc(fn, nin, 1)

    def call(*args):
        args = [a if not isinstance(a, (list, tuple)) else _obj(a) for a in args]
        r = uf(*args)
        if isinstance(r, _np.ndarray):
            base = next((a for a in args if isinstance(a, _np.ndarray) and type(a) is not _np.ndarray), None)
            if r.dtype != object:
                r = r.astype(object)
            return r
        return r
    return call


def _allfv(fvs, conj):
    if any(f is None for f in fvs) or not fvs:
        return None
    r = fvs[0]
    for f in fvs[1:]:
        r = (r & f) if conj else (r | f)
    return r


class _FloatMeta(type):
    def __instancecheck__(cls, x):
        return isinstance(x, (builtins.float, SR))

    def __call__(cls, x=0.0):
        if isinstance(x, SR):
            return x
        if isinstance(x, _np.ndarray) and x.dtype == object and x.size == 1:
            e = x.reshape(-1)[0]
            return e if isinstance(e, SR) else builtins.float(e)
        return builtins.float(x)


class symfloat(metaclass=_FloatMeta):
    """stands in for the builtin `float` inside ahrs modules"""


# ---- element-wise kernels ---------------------------------------------------------------------
def _exp1(x):
    if not isinstance(x, SR):
        return math.exp(x)
    c = core._const_of(z3.simplify(x.t))
    if c is not None:
        return math.exp(builtins.float(c))
    return SR(EXP(x.t), None, None, core._fop(_np.exp, x))


def _log1(x):
    if not isinstance(x, SR):
        return math.log(x) if x > 0 else (builtins.float('-inf') if x == 0 else builtins.float('nan'))
    CTX.obligation('log', x.t <= 0, 'log argument not positive')
    CTX.assumes.append(x.t > 0)
    core.mask_and(None if x.fv is None else x.fv > 0)
    return SR(LOG(x.t), None, None, core._fop(_np.log, x))


EXP = z3.Function('exp', z3.RealSort(), z3.RealSort())
LOG = z3.Function('log', z3.RealSort(), z3.RealSort())


def _isnan1(x):
    if isinstance(x, (SR, SymBool)):
        return False
    try:
        return math.isnan(x)
    except TypeError:
        return False


def _where1(c, a, b):
    if isinstance(c, SymBool):
        if not isinstance(a, SR) and not isinstance(b, SR) and a == b:
            return a
        return core.lazy_if(c.e, a, b, c.fv)
    if isinstance(c, SR):
        return core.lazy_if(c.t != 0, a, b, None if c.fv is None else c.fv != 0)
    return a if c else b


def _cmp(op):
    def f(a, b):
        return op(a, b)
    return f


def _det(M):
    n = M.shape[0]
    if n == 1:
        return M[0, 0]
    if n == 2:
        return M[0, 0] * M[1, 1] - M[0, 1] * M[1, 0]
    if n == 3:
        return (M[0, 0] * (M[1, 1] * M[2, 2] - M[1, 2] * M[2, 1])
                - M[0, 1] * (M[1, 0] * M[2, 2] - M[1, 2] * M[2, 0])
                + M[0, 2] * (M[1, 0] * M[2, 1] - M[1, 1] * M[2, 0]))
    tot = 0.0
    for j in range(n):
        e = M[0, j]
        if not isinstance(e, SR) and e == 0:
            continue
        minor = _np.delete(_np.delete(M, 0, axis=0), j, axis=1)
        tot = tot + ((-1) ** j) * e * _det(minor)
    return tot


def _adj_inv(M):
    n = M.shape[0]
    d = _det(M)
    out = _np.empty((n, n), dtype=object)
    for i in range(n):
        for j in range(n):
            minor = _np.delete(_np.delete(M, j, axis=0), i, axis=1)
            out[i, j] = ((-1) ** (i + j)) * _det(minor) / d if n > 1 else 1.0 / d
    return out


class Linalg:
    LinAlgError = _np.linalg.LinAlgError

    def norm(self, x, ord=None, axis=None, keepdims=False):
        x = _obj(x)
        if not has_sym(x):
            return _np.linalg.norm(_conc(x), ord=ord, axis=axis, keepdims=keepdims)
        if ord not in (None, 2, 'fro'):
            raise SymnpUnsupported(f"norm ord={ord}")
        if ord == 2 and x.ndim > 1 and axis is None:
            raise SymnpUnsupported("spectral norm")
        if axis is None:
            tot = 0.0
            for e in x.ravel():
                tot = tot + e * e
            return core.sym_sqrt(tot)
        sq = (x * x).sum(axis=axis, keepdims=keepdims)
        return _unwrap0(PROXY.sqrt(sq))

    def det(self, M):
        M = _obj(M)
        if not has_sym(M):
            return _np.linalg.det(_conc(M))
        if M.ndim == 2:
            return _det(M)
        out = _np.empty(M.shape[:-2], dtype=object)
        for idx in _np.ndindex(*M.shape[:-2]):
            out[idx] = _det(M[idx])
        return out

    def inv(self, M):
        M = _obj(M)
        if not has_sym(M):
            return _np.linalg.inv(_conc(M)).astype(object)
        if M.ndim != 2 or M.shape[0] != M.shape[1]:
            raise SymnpUnsupported("inv of stacked matrices")
        if M.shape[0] > 4:
            return STUBS.inv_uf(M)
        return _adj_inv(M)

    def solve(self, A, b):
        A = _obj(A)
        b = _obj(b)
        if not has_sym(A) and not has_sym(b):
            return _np.linalg.solve(_conc(A), _conc(b)).astype(object)
        return self.inv(A) @ b

    def eig(self, M):
        M = _obj(M)
        if not has_sym(M):
            w, v = _np.linalg.eig(_conc(M))
            return w, v
        return STUBS.eig(M)

    def eigh(self, M):
        return self.eig(M)

    def cholesky(self, M):
        M = _obj(M)
        if not has_sym(M):
            return _np.linalg.cholesky(_conc(M)).astype(object)
        return STUBS.cholesky(M)

    def matrix_power(self, M, n):
        M = _obj(M)
        if n == 0:
            return PROXY.identity(M.shape[0])
        R = M
        for _ in range(n - 1):
            R = R @ M
        return R


class Stubs:
    """contracts for what is not executed symbolically; harnesses may replace members"""

    def __init__(self):
        self.reset()

    def reset(self):
        self.eig_calls = []
        self.rng_calls = 0
        self.rng_log = []
        self.rng_fv = {}
        self.rng_os = 0
        self.rng_streams = {}
        self.uf_count = 0

    def eig(self, M):
        raise SymnpUnsupported("np.linalg.eig on a symbolic matrix (no contract installed by this harness)")

    def cholesky(self, M):
        raise SymnpUnsupported("np.linalg.cholesky on a symbolic matrix (no contract installed)")

    def inv_uf(self, M):
        """uninterpreted inverse: entries are uninterpreted functions of all entries of M"""
        n = M.shape[0]
        args = [lift(e) for e in M.ravel()]
        out = _np.empty((n, n), dtype=object)
        for i in range(n):
            for j in range(n):
                f = z3.Function(f"inv{n}_{i}_{j}", *([z3.RealSort()] * (len(args) + 1)))
                out[i, j] = SR(f(*args))
        CTX.events.append(('stub', f'inv{n}x{n} uninterpreted'))
        return out

    def random(self, shape, lo, hi, tag, stream=None):
        """symbolic draws in [lo, hi).  RNG contract: the k-th draw of a stream is the symbol rng_<stream><tag>_<k>; the
        global stream restarts at np.random.seed() (same seed => same symbols), a Generator built without a seed is a new
        stream every time (OS entropy: nothing relates two of them)."""
        shape = () if shape is None else ((shape,) if isinstance(shape, (int, _np.integer)) else tuple(shape))
        out = _np.empty(shape, dtype=object)
        for idx in _np.ndindex(*shape):
            if stream is None:
                self.rng_calls += 1
                name = f"rng_{tag}_{self.rng_calls}"
            else:
                self.rng_streams[stream] = self.rng_streams.get(stream, 0) + 1
                name = f"rng_{stream}_{tag}_{self.rng_streams[stream]}"
            v = z3.Real(name)
            fv = self.rng_fv.get(name)
            if fv is None:
                CTX.inputs[str(v)] = v
                if lo is not None:
                    CTX.domain += [v >= lo, v < hi]
                    fv = core.SAMPLE_RNG.uniform(lo, hi, core.K_SAMPLES)
                else:
                    fv = core.SAMPLE_RNG.standard_normal(core.K_SAMPLES)
                self.rng_fv[name] = fv
            out[idx] = SR(v, None, None, fv)
        self.rng_log.append((tag, shape))
        return out if shape else out[()]


STUBS = Stubs()


class Random:
    def __init__(self, stream=None):
        self.stream = stream

    def random(self, size=None):
        return STUBS.random(size, 0, 1, 'u', self.stream)

    def random_sample(self, size=None):
        return STUBS.random(size, 0, 1, 'u', self.stream)

    def rand(self, *shape):
        return STUBS.random(shape or None, 0, 1, 'u', self.stream)

    def randn(self, *shape):
        return STUBS.random(shape or None, None, None, 'n', self.stream)

    def standard_normal(self, size=None):
        return STUBS.random(size, None, None, 'n', self.stream)

    def uniform(self, low=0.0, high=1.0, size=None):
        u = STUBS.random(size, 0, 1, 'u', self.stream)
        return low + (high - low) * u

    def default_rng(self, seed=None):
        if seed is None:
            STUBS.rng_os += 1
            return Random(f'os{STUBS.rng_os}')
        return self

    def seed(self, s=None):
        STUBS.rng_calls = 0

    def normal(self, loc=0.0, scale=1.0, size=None):
        return loc + scale * STUBS.random(size, None, None, 'n', self.stream)

    def randint(self, *a, **k):
        raise SymnpUnsupported("np.random.randint (integer draws index arrays)")

    def integers(self, *a, **k):
        raise SymnpUnsupported("rng.integers")


class Proxy:
    linalg = Linalg()
    random = Random()
    ndarray = _np.ndarray
    newaxis = None
    pi = _np.pi
    e = _np.e
    nan = _np.nan
    inf = _np.inf
    float64 = builtins.float
    int64 = _np.int64
    bool_ = _np.bool_
    integer = _np.integer
    floating = _np.floating
    emath = None

    PASS = {'c_', 'r_', 'vstack', 'hstack', 'stack', 'concatenate', 'outer', 'transpose', 'tile', 'dot',
            'trace', 'repeat', 'append', 'diff', 'nonzero', 'cumsum', 'split', 'reshape', 'roll', 'diag',
            'atleast_1d', 'atleast_2d', 'ndim', 'shape', 'size', 'squeeze', 'expand_dims', 'swapaxes',
            'moveaxis', 'flip', 'delete', 'insert', 'ndindex', 'einsum', 'kron', 'matmul', 'inner',
            'broadcast_to', 'broadcast_arrays', 'ravel', 'triu', 'tril', 'genfromtxt', 'integer', 'floating',
            'issubdtype', 'number', 'isscalar', 'iterable', 'argsort', 'unique', 'count_nonzero', 'prod',
            'cumprod', 'subtract', 'add', 'multiply', 'divide', 'negative', 'vectorize', 'apply_along_axis'}

    def __getattr__(self, name):
        if name in Proxy.PASS:
            return getattr(_np, name)
        raise SymnpUnsupported(f"numpy.{name} is not modelled by symnp")

    # ---- creation
    def array(self, obj, dtype=None, copy=True, **kw):
        if dtype is not None and dtype not in (symfloat, builtins.float, object, _np.float64):
            return _np.array(obj, dtype=dtype, **kw)
        if isinstance(obj, _np.ndarray):
            if obj.dtype == object or obj.dtype.kind == 'f' or (obj.dtype.kind in 'iu' and dtype is not None):
                return _np.array(obj, dtype=object, **kw)      # plain ndarray copy (as np.array does)
            return _np.array(obj, **kw)
        if has_sym(obj):
            return _np.array(obj, dtype=object, **kw)
        a = _np.array(obj, **kw)
        if a.dtype.kind == 'f' or (a.dtype.kind in 'iu' and dtype is not None):
            return a.astype(object)
        if a.dtype == object and dtype is not None:
            return a
        return a

    def asarray(self, obj, dtype=None):
        if isinstance(obj, _np.ndarray) and obj.dtype == object:
            return obj
        return self.array(obj, dtype=dtype)

    def asfarray(self, obj):
        return self.array(obj, dtype=symfloat)

    def copy(self, a):
        if isinstance(a, _np.ndarray):
            if a.dtype.kind == 'f':
                return a.astype(object)
            return _np.array(a, copy=True)   # np.copy returns a base-class array
        return self.array(a)

    def _filled(self, shape, v):
        a = _np.empty(shape, dtype=object)
        a.fill(v)
        return a

    def zeros(self, shape, dtype=None):
        if dtype is not None and dtype not in (symfloat, builtins.float):
            return _np.zeros(shape, dtype=dtype)
        return self._filled(shape, 0.0)

    def ones(self, shape, dtype=None):
        if dtype is not None and dtype not in (symfloat, builtins.float):
            return _np.ones(shape, dtype=dtype)
        return self._filled(shape, 1.0)

    def empty(self, shape, dtype=None):
        return self.zeros(shape, dtype)

    def full(self, shape, v, dtype=None):
        return self._filled(shape, v)

    def zeros_like(self, a, dtype=None):
        a = _np.asarray(a) if not isinstance(a, _np.ndarray) else a
        if a.dtype == bool or (dtype is not None and dtype not in (symfloat, builtins.float)):
            return _np.zeros_like(a, dtype=dtype)
        return self._filled(a.shape, 0.0)

    def ones_like(self, a, dtype=None):
        a = _np.asarray(a) if not isinstance(a, _np.ndarray) else a
        return self._filled(a.shape, 1.0)

    def identity(self, n, dtype=None):
        a = self._filled((n, n), 0.0)
        for i in range(n):
            a[i, i] = 1.0
        return a

    def eye(self, n, m=None, k=0, dtype=None):
        if m is None and k == 0:
            return self.identity(n)
        return _np.eye(n, m, k).astype(object)

    def linspace(self, *a, **k):
        if any(has_sym(x) for x in a):
            start, stop = a[0], a[1]
            num = a[2] if len(a) > 2 else k.get('num', 50)
            return _np.array([start + (stop - start) * (i / (num - 1)) for i in range(num)], dtype=object)
        return _np.linspace(*a, **k)

    def arange(self, *a, **k):
        return _np.arange(*a, **k)

    def dtype(self, t):
        if t is symfloat or t is builtins.float:
            return _np.dtype(object)
        return _np.dtype(t)

    # ---- element-wise maths
    def sqrt(self, x):
        return _unwrap0(_elementwise(core.sym_sqrt, 1)(x))

    def cbrt(self, x):
        return _unwrap0(_elementwise(core.sym_cbrt, 1)(x))

    def abs(self, x):
        return _unwrap0(_elementwise(core.sym_abs, 1)(x))

    absolute = abs
    fabs = abs

    def sign(self, x):
        return _unwrap0(_elementwise(core.sym_sign, 1)(x))

    def clip(self, x, lo, hi):
        return _unwrap0(_elementwise(core.sym_clip, 3)(x, lo, hi))

    def minimum(self, a, b):
        return _unwrap0(_elementwise(core.sym_min, 2)(a, b))

    def maximum(self, a, b):
        return _unwrap0(_elementwise(core.sym_max, 2)(a, b))

    def cos(self, x):
        return _unwrap0(_elementwise(trig.sym_cos, 1)(x))

    def sin(self, x):
        return _unwrap0(_elementwise(trig.sym_sin, 1)(x))

    def tan(self, x):
        return _unwrap0(_elementwise(trig.sym_tan, 1)(x))

    def arctan2(self, y, x):
        return _unwrap0(_elementwise(trig.sym_arctan2, 2)(y, x))

    def arctan(self, x):
        return _unwrap0(_elementwise(trig.sym_arctan, 1)(x))

    def arcsin(self, x):
        return _unwrap0(_elementwise(trig.sym_arcsin, 1)(x))

    def arccos(self, x):
        return _unwrap0(_elementwise(trig.sym_arccos, 1)(x))

    def exp(self, x):
        return _unwrap0(_elementwise(_exp1, 1)(x))

    def log(self, x):
        return _unwrap0(_elementwise(_log1, 1)(x))

    def square(self, x):
        return x * x

    def power(self, x, p):
        return _obj(x) ** p

    def deg2rad(self, x):
        return x * (math.pi / 180.0)

    radians = deg2rad

    def rad2deg(self, x):
        return x * (180.0 / math.pi)

    degrees = rad2deg

    def mod(self, x, m):
        return _unwrap0(_elementwise(core.sym_mod, 2)(x, m))

    remainder = mod

    def isnan(self, x):
        r = _elementwise(_isnan1, 1)(x)
        if isinstance(r, _np.ndarray):
            return r.astype(bool)
        return bool(r)

    def isinf(self, x):
        # symbolic reals are finite; concrete infinities are seen
        r = _elementwise(lambda e: isinstance(e, (builtins.float, _np.floating)) and e in (_np.inf, -_np.inf), 1)(x)
        if isinstance(r, _np.ndarray):
            return r.astype(bool)
        return bool(r)

    def isfinite(self, x):
        r = self.isnan(x)
        i = self.isinf(x)
        return ~(r | i) if isinstance(r, _np.ndarray) else (not (r or i))

    def isclose(self, a, b, rtol=1e-5, atol=1e-8, equal_nan=False):
        if not has_sym(a) and not has_sym(b):
            return _np.isclose(_conc(_obj(a)), _conc(_obj(b)), rtol=rtol, atol=atol)
        f = _np.frompyfunc(lambda x, y: core.sym_isclose(x, y, rtol, atol), 2, 1)
        return _unwrap0(f(_obj(a), _obj(b)))

    def allclose(self, a, b, rtol=1e-5, atol=1e-8, equal_nan=False):
        if not has_sym(a) and not has_sym(b):
            return bool(_np.allclose(_conc(_obj(a)), _conc(_obj(b)), rtol=rtol, atol=atol))
        a, b = _np.broadcast_arrays(_obj(a), _obj(b))
        es = []
        fvs = []
        for x, y in zip(a.ravel(), b.ravel()):
            r = core.sym_isclose(x, y, rtol, atol)
            if isinstance(r, SymBool):
                es.append(r.e)
                fvs.append(r.fv)
            elif not r:
                return False
        return SymBool(z3.And(es), _allfv(fvs, True)) if es else True

    def array_equal(self, a, b):
        a, b = _obj(a), _obj(b)
        if a.shape != b.shape:
            return False
        es = []
        fvs = []
        for x, y in zip(a.ravel(), b.ravel()):
            r = (x == y)
            if isinstance(r, SymBool):
                es.append(r.e)
                fvs.append(r.fv)
            elif not r:
                return False
        return SymBool(z3.And(es), _allfv(fvs, True)) if es else True

    def where(self, c, a=None, b=None):
        if a is None:
            c = _np.asarray(c)
            if c.dtype == object:
                c = _np.array([bool(e) for e in c.ravel()]).reshape(c.shape)
            return _np.where(c)
        f = _np.frompyfunc(_where1, 3, 1)
        return _unwrap0(f(c if not isinstance(c, (list, tuple)) else _obj(c), _obj(a) if isinstance(a, (list, tuple)) else a,
                          _obj(b) if isinstance(b, (list, tuple)) else b))

    def _boolreduce(self, a, axis, conj):
        a = _np.asarray(a) if not isinstance(a, _np.ndarray) else a
        if a.dtype != object:
            return (_np.all if conj else _np.any)(a, axis=axis)
        if axis is None:
            es = []
            fvs = []
            for e in a.ravel():
                if isinstance(e, (SymBool, SR)):
                    es.append(core._b(e))
                    fvs.append(core._bfv(e))
                elif bool(e) != conj:
                    return not conj
            if not es:
                return conj
            return SymBool(z3.And(es) if conj else z3.Or(es), _allfv(fvs, conj))
        moved = _np.moveaxis(a, axis, -1)
        out = _np.empty(moved.shape[:-1], dtype=object)
        for idx in _np.ndindex(*moved.shape[:-1]):
            out[idx] = self._boolreduce(moved[idx], None, conj)
        if not has_sym(out):
            return out.astype(bool)
        return out

    def all(self, a, axis=None):
        return self._boolreduce(a, axis, True)

    def any(self, a, axis=None):
        return self._boolreduce(a, axis, False)

    def logical_and(self, a, b):
        return _obj(a) & _obj(b)

    def logical_or(self, a, b):
        return _obj(a) | _obj(b)

    def logical_not(self, a):
        return ~_obj(a)

    # ---- reductions
    def sum(self, a, axis=None, **kw):
        if not isinstance(a, (_np.ndarray, list, tuple)):
            # generator etc.: real numpy raises for generators in NumPy 2; mimic via real call
            return _np.sum(a, axis=axis, **kw)
        return _unwrap0(_np.sum(_obj(a), axis=axis, **kw))

    def mean(self, a, axis=None, **kw):
        a = _obj(a)
        n = a.size if axis is None else a.shape[axis]
        return _unwrap0(_np.sum(a, axis=axis, **kw) / n)

    def nansum(self, a, axis=None):
        a = _obj(a)
        m = self.isnan(a)
        if m.any():
            a = a.copy()
            a[m] = 0.0
        return _unwrap0(_np.sum(a, axis=axis))

    def nanmean(self, a, axis=None):
        a = _obj(a)
        m = self.isnan(a)
        if not m.any():
            return self.mean(a, axis=axis)
        a = a.copy()
        a[m] = 0.0
        cnt = (~m).sum(axis=axis)
        return _unwrap0(_np.sum(a, axis=axis) / cnt)

    def cross(self, a, b, **kw):
        a, b = _obj(a), _obj(b)
        if a.shape[-1] == 3 and b.shape[-1] == 3 and not kw:
            a, b = _np.broadcast_arrays(a, b)
            out = _np.empty(a.shape, dtype=object)
            out[..., 0] = a[..., 1] * b[..., 2] - a[..., 2] * b[..., 1]
            out[..., 1] = a[..., 2] * b[..., 0] - a[..., 0] * b[..., 2]
            out[..., 2] = a[..., 0] * b[..., 1] - a[..., 1] * b[..., 0]
            return out
        return _np.cross(a, b, **kw)

    def argmax(self, a, axis=None):
        return _np.argmax(_obj(a), axis=axis)

    def argmin(self, a, axis=None):
        return _np.argmin(_obj(a), axis=axis)

    def _reduce2(self, fn, a, axis):
        a = _obj(a)
        if not has_sym(a):
            return (_np.max if fn is core.sym_max else _np.min)(_conc(a), axis=axis)
        if axis is None:
            flat = list(a.ravel())
            r = flat[0]
            for e in flat[1:]:
                r = fn(r, e)          # If-terms (simplified when the context decides), no forking
            return r
        moved = _np.moveaxis(a, axis, -1)
        out = _np.empty(moved.shape[:-1], dtype=object)
        for idx in _np.ndindex(*moved.shape[:-1]):
            out[idx] = self._reduce2(fn, moved[idx], None)
        return out

    def max(self, a, axis=None):
        return _unwrap0(self._reduce2(core.sym_max, a, axis))

    amax = max

    def min(self, a, axis=None):
        return _unwrap0(self._reduce2(core.sym_min, a, axis))

    amin = min

    def ptp(self, a, axis=None):
        return self.max(a, axis=axis) - self.min(a, axis=axis)

    def sort(self, a, axis=-1):
        return _np.sort(_obj(a), axis=axis)

    def correlate(self, a, v, mode='valid'):
        a, v = _obj(a), _obj(v)
        if not has_sym(a) and not has_sym(v):
            return _np.correlate(_conc(a), _conc(v), mode=mode)
        raise SymnpUnsupported("np.correlate on symbolic data")

    def round(self, a, decimals=0):
        if has_sym(a):
            raise SymnpUnsupported("round of symbolic data")
        return _np.round(_conc(_obj(a)), decimals)

    around = round

    def floor(self, a):
        if has_sym(a):
            raise SymnpUnsupported("floor of symbolic data")
        return _np.floor(_conc(_obj(a)))


class _Emath:
    def sqrt(self, x):
        # complex square root: only the real-argument >= 0 case is modelled; negative -> imaginary (real part 0)
        if isinstance(x, SR):
            return _ComplexSqrt(x)
        return _np.emath.sqrt(x)


class _ComplexSqrt:
    """result of np.emath.sqrt(symbolic): only `.real` is supported (0 when the argument is negative)"""

    def __init__(self, x):
        self.x = x

    @property
    def real(self):
        x = self.x
        r = CTX.newvar('esqrt', ('esqrt', x.t))
        CTX.defs += [r >= 0, z3.If(x.t >= 0, r * r == x.t, r == 0)]
        return SR(r, None, None, core._fop(lambda v: _np.sqrt(_np.maximum(v, 0.0)), x))


Proxy.emath = _Emath()
PROXY = Proxy()


# ---- patching the real modules -----------------------------------------------------------------
_patched = []


def ahrs_modules():
    import sys
    return [m for n, m in list(sys.modules.items()) if (n == 'ahrs' or n.startswith('ahrs.')) and m is not None]


def patch():
    """bind np -> PROXY and float -> symfloat in every loaded ahrs module"""
    unpatch()
    for m in ahrs_modules():
        saved = {}
        if getattr(m, 'np', None) is _np:
            saved['np'] = _np
            m.np = PROXY
        saved['float'] = m.__dict__.get('float', _MISSING)
        m.float = symfloat
        _patched.append((m, saved))


_MISSING = object()


def unpatch():
    while _patched:
        m, saved = _patched.pop()
        if 'np' in saved:
            m.np = saved['np']
        if saved.get('float', _MISSING) is _MISSING:
            if 'float' in m.__dict__:
                del m.__dict__['float']
        else:
            m.float = saved['float']
