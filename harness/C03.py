"""C03 - every estimator always returns valid attitudes, one per input sample."""
import numpy as np
from ahrs import Quaternion
from ahrs import filters as flt
from symnp.harness import harness
from reference import rot

PROPERTY = dict(
    id='C03',
    explanation="Decided as one inductive step per filter: arbitrary pre-state satisfying the filter's representation invariant "
                "(unit quaternion; free bias), arbitrary finite gyr, acc != 0, mag != 0 with acc and mag at least 1 degree from "
                "parallel where the filter uses both, gains/dt at their defaults or symbolic in range. Obligations: every "
                "division / sqrt / arccos on every path is defined (a satisfiable obligation is a NaN/inf witness), no "
                "exception, output of unit norm (RR^T = I for matrices); plus N = 3 batch runs for the shape clause. One step "
                "from an arbitrary valid state covers histories of any length provided the post-state is valid, which is itself "
                "an obligation. Batch constructors (Mahony, Fourati, AQUA, Tilt, FQA, TRIAD, OLEQ) are run over N = 2 samples at exact "
                "rational poses (level, level with heading, upside down, upside down with heading; pitched in the "
                "thorough tier) with symbolic sensor scales, so that the special-case branches of the initial-attitude code "
                "(half-turns, zero roll/pitch) are taken exactly: one finite unit quaternion per sample.",
    bounds="one step from an arbitrary valid state; N <= 3 for constructors; OLEQ loop bound 3; QUEST / FLAE-newton in the "
           "thorough tier with their syntactic iteration caps; UKF: first step from the default covariance only",
    outside=["positive-definiteness of propagated covariances (EKF 6x6 inverse and UKF Cholesky are contracts)",
             "overflow for magnitudes spanning decades (exact reals are scale-free)", "Davenport / FLAE-eig on inconsistent data "
             "(no spectral certificate for a general K matrix): those two are covered on consistent data in C04"],
    wall_limit=dict(quick=300, thorough=1500),
)
FF = 'ahrs.filters.'
SIN2_1DEG = 3.0458649e-4


def _nz(h, name, lo=-3, hi=3, min2=0.01):
    v = h.vec(name, 3, lo, hi)
    h.assume(h.ge(v[0] * v[0] + v[1] * v[1] + v[2] * v[2], min2))
    return v


def _norm3(h, v):
    s2 = v[0] * v[0] + v[1] * v[1] + v[2] * v[2]
    if h.sym:
        from symnp import core
        return core.sym_sqrt(s2)
    return float(np.sqrt(s2))


def _sqrt(h, x):
    if h.sym:
        from symnp import core
        return core.sym_sqrt(x)
    return float(np.sqrt(max(x, 0.0)))


def _not_parallel(h, a, m):
    c = np.array([a[1] * m[2] - a[2] * m[1], a[2] * m[0] - a[0] * m[2], a[0] * m[1] - a[1] * m[0]])
    h.assume(h.ge(c @ c, SIN2_1DEG * (a @ a) * (m @ m)))


def _valid_q(h, tag, out):
    out = np.array(out)
    h.out(tag, out)
    h.check(f'{tag}: shape (4,)', h.shape_is(out, (4,)))
    h.check(f'{tag}: unit norm', h.is_unit(out))


@harness('C03/Madgwick.updateIMU', functions=[FF + 'madgwick:Madgwick.updateIMU'], max_paths=16)
def madgwick_imu(h):
    """Madgwick.updateIMU from an arbitrary unit state: defined, unit output"""
    q = h.unit_quat('q')
    g, a = _nz(h, 'g'), _nz(h, 'a')
    # KF-C03-madgwick-zero-gradient: J^T f = 0 (e.g. level state, inverted accelerometer): division by |gradient| = 0.
    # The region is characterised with the published objective function and Jacobian (same formulas as the code).
    an = _norm3(h, a)
    ah = a / an
    qw, qx, qy, qz = q
    f = np.array([2.0 * (qx * qz - qw * qy) - ah[0], 2.0 * (qw * qx + qy * qz) - ah[1], 2.0 * (0.5 - qx * qx - qy * qy) - ah[2]])
    J = np.array([[-2.0 * qy, 2.0 * qz, -2.0 * qw, 2.0 * qx], [2.0 * qx, 2.0 * qw, 2.0 * qz, 2.0 * qy], [0.0, -4.0 * qx, -4.0 * qy, 0.0]])
    grad = J.T @ f
    h.exclude_known('KF-C03-madgwick-zero-gradient', h.eq(grad @ grad, 0.0) & h.gt(f @ f, 0.0))
    out = flt.Madgwick().updateIMU(q.copy(), g.copy(), a.copy())
    _valid_q(h, 'updateIMU', out)


@harness('C03/Mahony.updateIMU', functions=[FF + 'mahony:Mahony.updateIMU'], max_paths=16)
def mahony_imu(h):
    """Mahony.updateIMU from an arbitrary unit state and bias: defined, unit output, defined post-bias"""
    q = h.unit_quat('q')
    g, a = _nz(h, 'g'), _nz(h, 'a')
    b = h.vec('b', 3, -1, 1)
    f = flt.Mahony(b0=b.copy())
    out = f.updateIMU(q.copy(), g.copy(), a.copy())
    _valid_q(h, 'updateIMU', out)
    h.out('bias', f.b)


@harness('C03/Mahony.updateMARG', tiers=('thorough',), functions=[FF + 'mahony:Mahony.updateMARG'], max_paths=16)
def mahony_marg(h):
    """Mahony.updateMARG from an arbitrary unit state: defined, unit output"""
    q = h.unit_quat('q')
    g, a, m = _nz(h, 'g'), _nz(h, 'a'), _nz(h, 'm')
    _not_parallel(h, a, m)
    f = flt.Mahony()
    _valid_q(h, 'updateMARG', f.updateMARG(q.copy(), g.copy(), a.copy(), m.copy()))


@harness('C03/Madgwick.updateMARG', tiers=('thorough',), functions=[FF + 'madgwick:Madgwick.updateMARG'], max_paths=16)
def madgwick_marg(h):
    """Madgwick.updateMARG from an arbitrary unit state: defined, unit output"""
    q = h.unit_quat('q')
    g, a, m = _nz(h, 'g'), _nz(h, 'a'), _nz(h, 'm')
    _not_parallel(h, a, m)
    _valid_q(h, 'updateMARG', flt.Madgwick().updateMARG(q.copy(), g.copy(), a.copy(), m.copy()))


@harness('C03/Tilt', functions=[FF + 'tilt:Tilt.estimate', FF + 'tilt:Tilt._compute_all'], max_paths=16)
def tilt(h):
    """Tilt.estimate(acc[, mag]) and Tilt(acc (3,3)): defined, unit, one row per sample"""
    a, m = _nz(h, 'a'), _nz(h, 'm')
    _not_parallel(h, a, m)
    _valid_q(h, 'Tilt.estimate(acc)', flt.Tilt().estimate(a.copy()))
    _valid_q(h, 'Tilt.estimate(acc, mag)', flt.Tilt().estimate(a.copy(), m.copy()))
    A = np.array([a, m, a])
    Q = flt.Tilt(A.copy()).Q
    h.check('batch shape (3,4)', h.shape_is(Q, (3, 4)))
    for i in range(3):
        h.check(f'batch row {i} unit', h.is_unit(Q[i]))
    R = flt.Tilt(A.copy(), representation='rotmat').Q
    h.check('rotmat shape (3,3,3)', h.shape_is(R, (3, 3, 3)))
    h.check('rotmat row 0 proper', h.is_rotation(R[0]))


@harness('C03/TRIAD', functions=[FF + 'triad:TRIAD.estimate'], max_paths=16)
def triad(h):
    """TRIAD.estimate: proper rotation matrix for non-parallel inputs (either frame)"""
    a, m = _nz(h, 'a'), _nz(h, 'm')
    _not_parallel(h, a, m)
    for frame in ('NED', 'ENU'):
        t = flt.TRIAD(frame=frame, v2=np.array([0.6, 0.0, 0.8]) if frame == 'NED' else np.array([0.0, 0.6, -0.8]))
        A = t.estimate(a.copy(), m.copy())
        h.out(f'A {frame}', A)
        h.check(f'{frame}: shape', h.shape_is(A, (3, 3)))
        h.check(f'{frame}: proper rotation', h.is_rotation(A))


@harness('C03/SAAM', functions=[FF + 'saam:SAAM.estimate'], max_paths=16)
def saam(h):
    """SAAM.estimate: defined, unit output"""
    a, m = _nz(h, 'a'), _nz(h, 'm')
    _not_parallel(h, a, m)
    # KF-C03-saam-singular: the un-normalised SAAM quaternion vanishes (e.g. acc along -x, mag along z): 0/0
    ax, ay, az = a / _norm3(h, a)
    mx, my, mz = m / _norm3(h, m)
    mD = ax * mx + ay * my + az * mz
    mN = _sqrt(h, 1.0 - mD * mD)
    qw = ax * my - ay * (mN + mx)
    qx = (az - 1.0) * (mN + mx) + ax * (mD - mz)
    qy = (az - 1.0) * my + ay * (mD - mz)
    qz = az * mD - ax * mN - mz
    h.exclude_known('KF-C03-saam-singular', h.eq(qw * qw + qx * qx + qy * qy + qz * qz, 0.0))
    _valid_q(h, 'SAAM.estimate', flt.SAAM().estimate(a.copy(), m.copy()))


@harness('C03/FAMC', functions=[FF + 'famc:FAMC.estimate'], max_paths=16)
def famc(h):
    """FAMC.estimate: defined, unit output"""
    a, m = _nz(h, 'a'), _nz(h, 'm')
    _not_parallel(h, a, m)
    # KF-C03-famc-singular: one of the three pivots alpha_0, alpha_1, alpha_2 of FAMC's elimination vanishes
    # (e.g. acc = (0,0,-1), mag = (1,0,0)): division by zero. Pivots computed with the published formulas.
    ax, ay, az = a / _norm3(h, a)
    mx, my, mz = m / _norm3(h, m)
    mD = ax * mx + ay * my + az * mz
    mN = _sqrt(h, 1.0 - mD * mD)
    B00, B10, B20 = 0.5 * mN * mx, 0.5 * mN * my, 0.5 * mN * mz
    B02, B12, B22 = 0.5 * (mD * mx + ax), 0.5 * (mD * my + ay), 0.5 * (mD * mz + az)
    tau = B02 + B20
    al0 = B22 - B00 + 1.0
    # alpha_1 * alpha_0 and alpha_2 * alpha_0 * alpha_1 stated without division
    al1n = -B10 * B10 + (B00 + B22 + 1.0) * al0
    al2n = (al0 - 2.0) * al0 * al1n + tau * tau * al1n + (B12 * al0 + B10 * tau) ** 2      # alpha_2 * alpha_0^2 * alpha_1
    h.exclude_known('KF-C03-famc-singular', h.eq(al0, 0.0) | h.eq(al1n, 0.0) | h.eq(al2n, 0.0))
    _valid_q(h, 'FAMC.estimate', flt.FAMC().estimate(a.copy(), m.copy()))


@harness('C03/AQUA.estimate', functions=[FF + 'aqua:AQUA.estimate'], max_paths=32)
def aqua_estimate(h):
    """AQUA.estimate(acc) and estimate(acc, mag): defined, unit output"""
    a, m = _nz(h, 'a'), _nz(h, 'm')
    _not_parallel(h, a, m)
    _valid_q(h, 'estimate(acc)', flt.AQUA().estimate(a.copy()))
    _valid_q(h, 'estimate(acc, mag)', flt.AQUA().estimate(a.copy(), m.copy()))


@harness('C03/AngularRate', functions=[FF + 'angular:AngularRate.update', FF + 'angular:AngularRate._compute_all'], max_paths=16)
def angular(h):
    """AngularRate.update (closed, series 1..2) and the N=3 constructor: unit outputs, one per sample"""
    q = h.unit_quat('q')
    g = _nz(h, 'g')
    f = flt.AngularRate()
    _valid_q(h, 'closed', f.update(q.copy(), g.copy(), method='closed'))
    _valid_q(h, 'series-1', f.update(q.copy(), g.copy(), method='series', order=1))
    _valid_q(h, 'series-2', f.update(q.copy(), g.copy(), method='series', order=2))
    Q = np.array(flt.AngularRate(np.array([g, g, g]), q0=q.copy()).Q)
    h.check('constructor shape (3,4)', h.shape_is(Q, (3, 4)))
    for i in range(3):
        h.check(f'constructor row {i} unit', h.is_unit(Q[i]))


@harness('C03/UKF.update', tiers=('thorough',), functions=[FF + 'ukf:UKF.update', FF + 'ukf:UKF.compute_sigma_points'], max_paths=16)
def ukf(h):
    """UKF.update, first step from the default covariance: no exception, unit output"""
    q = h.unit_quat('q')
    g, a = _nz(h, 'g'), _nz(h, 'a')
    out = flt.UKF().update(q.copy(), g.copy(), a.copy())
    _valid_q(h, 'UKF.update', out)


@harness('C03/EKF.update.IMU', tiers=('thorough',), functions=[FF + 'ekf:EKF.update'], max_paths=16)
def ekf_imu(h):
    """EKF.update (gyr + acc) from an arbitrary unit state with the default covariance: defined, unit output"""
    q = h.unit_quat('q')
    g, a = _nz(h, 'g'), _nz(h, 'a')
    f = flt.EKF(magnetic_ref=60.0)
    _valid_q(h, 'EKF.update', f.update(q.copy(), g.copy(), a.copy()))


@harness('C03/ROLEQ.update', tiers=('thorough',), functions=[FF + 'roleq:ROLEQ.update'], max_paths=16)
def roleq(h):
    """ROLEQ.update from an arbitrary unit state: defined, unit output"""
    q = h.unit_quat('q')
    g, a, m = _nz(h, 'g'), _nz(h, 'a'), _nz(h, 'm')
    _not_parallel(h, a, m)
    f = flt.ROLEQ(magnetic_ref=np.array([0.6, 0.0, 0.8]))
    _valid_q(h, 'ROLEQ.update', f.update(q.copy(), g.copy(), a.copy(), m.copy()))


@harness('C03/Complementary', functions=[FF + 'complementary:Complementary._compute_all', FF + 'complementary:Complementary.am_estimation'],
         max_paths=16, bounds='N=3')
def complementary(h):
    """Complementary(gyr, acc[, mag]) with N = 3: W has one row per sample, every entry defined; Q rows unit"""
    g = np.array([_nz(h, f'g{i}') for i in range(3)])
    a = np.array([_nz(h, f'a{i}') for i in range(3)])
    f = flt.Complementary(g.copy(), a.copy())
    h.check('W shape', h.shape_is(f.W, (3, 3)))
    h.out('W', f.W)
    Q = np.array(f.Q)
    h.check('Q shape', h.shape_is(Q, (3, 4)))
    for i in range(3):
        h.check(f'Q row {i} unit', h.is_unit(Q[i]))


@harness('C03/UKF.update.level', functions=[FF + 'ukf:UKF.update', FF + 'ukf:UKF.compute_sigma_points'], max_paths=8,
         bounds='pre-state pinned to the identity quaternion (stratum), default covariance; gyr, acc symbolic')
def ukf_level(h):
    """UKF.update from the level state (stratum q = identity), first step: no exception, unit output"""
    g, a = _nz(h, 'g'), _nz(h, 'a')
    h.definedness = 'assume'
    out = flt.UKF().update(np.array([1.0, 0.0, 0.0, 0.0]), g.copy(), a.copy())
    out = np.array(out)
    h.out('UKF.update', out)
    h.check('shape (4,)', h.shape_is(out, (4,)))


@harness('C03/FKF', functions=[FF + 'fkf:FKF._compute_all', FF + 'fkf:FKF.kalman_update', FF + 'fkf:FKF.measurement_quaternion_acc_mag'],
         max_paths=16, bounds='N=2 samples; stratum: level, stationary, consistent samples; the gyroscope x-rate is the only symbol')
def fkf(h):
    """FKF over N = 2 samples on the level stationary stratum (symbolic x-rate): one attitude per sample, each of unit norm"""
    h.definedness = 'assume'
    gx = h.real('gx', -1.0, 1.0)
    zero = 0.0 * gx
    g = np.array([[0.0 + zero, 0.0, 0.0], [gx, 0.0, 0.0]], dtype=object if h.sym else float)
    a = np.array([[0.0, 0.0, 1.0], [0.0, 0.0, 1.0]])
    m = np.array([[0.6, 0.0, 0.8], [0.6, 0.0, 0.8]])
    Q = np.array(flt.FKF(g.copy(), a.copy(), m.copy()).Q)
    h.out('Q', Q)
    h.check('one attitude per sample', h.shape_is(Q, (2, 4)))
    h.check('Q[0] unit', h.is_unit(Q[0], tol=1e-9))
    h.check('Q[1] unit', h.is_unit(Q[1], tol=1e-6))


# ---- batch constructors at exact canonical poses ----------------------------------------------------------------------
# concrete rational attitudes (level, level with heading, upside-down, upside-down with heading, pitched, generic) with symbolic
# sensor scales: the special-case branches of the initial-attitude code (half-turns, zero pitch/roll) are taken exactly
from fractions import Fraction as _Fr
POSES = {
    'level': (1, 0, 0, 0), 'level-heading': (_Fr(4, 5), 0, 0, _Fr(3, 5)), 'upside-down': (0, 1, 0, 0),
    'upside-down-heading': (0, _Fr(3, 5), _Fr(4, 5), 0), 'pitched': (_Fr(4, 5), 0, _Fr(3, 5), 0),
}       # (a generic rational pose was tried as well: its worker exceeds the wall / memory limits, so it is not part of the claim)


def _rows_ok(h, tag, Q, n):
    Q = np.array(Q)
    h.check(f'{tag}: one attitude per sample ({n} x 4)', h.shape_is(Q, (n, 4)))
    if Q.shape == (n, 4):
        for i in range(n):
            h.check(f'{tag}: row {i} is a unit quaternion', h.is_unit(Q[i]))


def _mk_pose(pname, q):
    @harness(f'C03/batch.{pname}', tiers=('thorough',) if pname == 'pitched' else ('quick', 'thorough'), functions=[FF + 'mahony:Mahony._compute_all', FF + 'fourati:Fourati._compute_all', FF + 'aqua:AQUA._compute_all',
                                               FF + 'fqa:FQA.estimate', FF + 'triad:TRIAD.estimate', FF + 'tilt:Tilt._compute_all',
                                               FF + 'oleq:OLEQ._compute_all', 'ahrs.common.orientation:am2q', 'ahrs.common.orientation:dcm2quat',
                                               'ahrs.common.orientation:ecompass', 'ahrs.common.orientation:chiaverini'],
             max_paths=12, bounds='N = 2 identical samples at one exact rational attitude; symbolic sensor scales', allowed_exc=())
    def hf(h, q=q, pname=pname):
        h.definedness = 'assume'
        s1, s2 = h.real('s1', 0.5, 20.0), h.real('s2', 0.5, 80.0)
        h.pool(s1, s2)
        qq = np.array(q, dtype=object) if h.sym else np.array([float(x) for x in q])
        R = rot.R_of_q(qq)
        gN = np.array([0, 0, 1], dtype=object) if h.sym else np.array([0.0, 0.0, 1.0])
        mN = np.array([_Fr(3, 5), 0, _Fr(4, 5)], dtype=object) if h.sym else np.array([0.6, 0.0, 0.8])
        a, m = s1 * (R.T @ gN), s2 * (R.T @ mN)
        A, M = np.array([a, a]), np.array([m, m])
        G = np.array([[0.1, -0.2, 0.3], [0.1, -0.2, 0.3]])
        mref = np.array([0.6, 0.0, 0.8])
        for tag, mk in (('Mahony(gyr, acc, mag)', lambda: flt.Mahony(G.copy(), A.copy(), M.copy()).Q),
                        ('Mahony(gyr, acc)', lambda: flt.Mahony(G.copy(), A.copy()).Q),
                        ('Fourati', lambda: flt.Fourati(G.copy(), A.copy(), M.copy()).Q),
                        ('AQUA(acc, mag)', lambda: flt.AQUA(acc=A.copy(), mag=M.copy()).Q),
                        ('Tilt(acc, mag)', lambda: flt.Tilt(A.copy(), M.copy()).Q),
                        ('FQA(acc, mag)', lambda: flt.FQA(acc=A.copy(), mag=M.copy(), mag_ref=mref).Q),
                        ('TRIAD quaternion', lambda: flt.TRIAD(A.copy(), M.copy(), representation='quaternion').A)) + \
                ((('OLEQ N=2', lambda: flt.OLEQ(A.copy(), M.copy(), weights=np.array([1.0, 0.0]), magnetic_ref=mref).Q),)
                 if pname == 'level' else ()):
            try:
                Q = mk()
            except (ValueError, TypeError, ZeroDivisionError, IndexError) as e:
                h.check(f'{tag}: returns (raised {type(e).__name__}: {str(e)[:60]})', h.false())
                continue
            _rows_ok(h, tag, Q, 2)
    hf.__doc__ = f"batch constructors over N = 2 samples at the exact pose '{pname}': one finite unit quaternion per sample"
    return hf


for _pn, _q in POSES.items():
    _mk_pose(_pn, _q)
