"""C20 - synthetic sensor data agree with their own ground truth."""
import numpy as np
import z3
from ahrs.utils import sensors as smod
from ahrs.utils.sensors import Sensors
from symnp.harness import harness
from reference import rot

PROPERTY = dict(
    id='C20',
    explanation="Sensors(quaternions=Q) with N = 3 symbolic unit rows and symbolic reference vectors; the module's random "
                "generator is replaced by the RNG contract (every draw a fresh symbol), noise levels zero or symbolic. "
                "Obligations: rotations[i] = R_ref(Q[i]); accelerometers[i] = R_i^T g (+ acc_noise * n_i with n_i the drawn "
                "symbols) and the three magnetometer arrays likewise, exactly when the level is zero; quaternions, rotations "
                "and ang_pos describe the same attitudes (inverse-trig results through their arguments); gyroscopes = "
                "(omega*RAD2DEG + bias + noise) in the reported unit with biases_gyroscopes the bias actually added.",
    bounds="N = 3 samples, given-quaternion route",
    outside=["the random-trajectory route (integer RNG draws index arrays: concretised)", "integrating the gyroscope samples "
             "reproduces the trajectory (first order only; see C08 for the algebraic identity of angular_velocities)",
             "all lengths >= 10 (N = 3 here)"],
    wall_limit=dict(quick=300, thorough=1200),
)
FS = 'ahrs.utils.sensors:Sensors.'
N = 3


def _setup(h, **kw):
    Q = np.array([h.unit_quat(f'q{i}') for i in range(N)])
    g = h.vec('g', 3, -12, 12)
    m = h.vec('m', 3, -60, 60)
    h.inputs_declared = True
    if h.sym:
        from symnp import proxy
        smod.GENERATOR = proxy.PROXY.random           # module-level generator -> RNG contract (fresh symbols per draw)
    s = Sensors(quaternions=Q.copy(), reference_gravitational_vector=g.copy(), reference_magnetic_vector=m.copy(), **kw)
    return Q, g, m, s


@harness('C20/exact.zero-noise', functions=[FS + '__init__', FS + 'generate'], max_paths=16,
         stubs=['ahrs.utils.sensors.GENERATOR: RNG contract (fresh symbols)'])
def exact(h):
    """all noise levels zero: rotations, accelerometers and magnetometers are exactly R_i^T of the references"""
    h.definedness = 'assume'
    Q, g, m, s = _setup(h, gyr_noise=0.0, acc_noise=0.0, mag_noise=0.0)
    h.check('num_samples', h.true() if s.num_samples == N else h.false())
    h.out('acc', s.accelerometers)
    for i in range(N):
        R = rot.R_of_q(Q[i])
        h.check(f'rotations[{i}] == R_ref(Q[{i}])', h.eq(s.rotations[i], R))
        h.check(f'quaternions[{i}] == Q[{i}]', h.eq(np.array(s.quaternions)[i], Q[i]))
        h.check(f'accelerometers[{i}] == R^T g', h.eq(s.accelerometers[i], R.T @ g))
        # KF-C20-mag-noise-override: the requested mag_noise = 0 is replaced by 0.5 % of the reference magnitude
        kf = h.kf('KF-C20-mag-noise-override', h.true())
        h.check(f'magnetometers[{i}] == R^T m when mag_noise = 0 (outside KF-C20-mag-noise-override)', kf | h.eq(s.magnetometers[i], R.T @ m))
    # ang_pos, quaternions and rotations describe the same attitudes: rebuilding quaternions from ang_pos gives +-quaternions
    from ahrs import QuaternionArray
    Qr = np.array(QuaternionArray(rpy=np.array(s.ang_pos)))
    for i in range(N):
        h.check(f'QuaternionArray(rpy=ang_pos)[{i}] == +-quaternions[{i}]', h.same_quat(Qr[i], Q[i]) & h.is_unit(Qr[i]))
    # bias bookkeeping with zero noise: gyroscopes - reported bias == angular velocity in the reported unit (radians here)
    b = np.array(s.biases_gyroscopes)
    for i in range(N):
        h.check(f'gyroscopes[{i}] - biases_gyroscopes == ang_vel[{i}] (rad/s, zero noise)', h.eq(s.gyroscopes[i] - b, np.array(s.ang_vel)[i]))
    h.check('reported mag_noise is the level applied (0 requested): known override value only',
            h.eq(s.mag_noise, 0.0) | h.eq(s.mag_noise, float(np.linalg.norm(smod.REFERENCE_MAGNETIC_VECTOR) * 0.005)))


@harness('C20/noise-and-bias', functions=[FS + 'generate'], max_paths=16,
         stubs=['ahrs.utils.sensors.GENERATOR: RNG contract (fresh symbols)'])
def noise_bias(h):
    """symbolic noise levels: sample = ideal + level * drawn symbol; reported gyroscope bias = bias applied, in the reported unit"""
    h.definedness = 'assume'
    an = h.real('acc_noise', 0.0, 1.0)
    gn = h.real('gyr_noise', 0.0, 1.0)
    for in_deg in (False, True):
        k0 = 0
        if h.sym:
            from symnp import proxy as _px
            k0 = _px.STUBS.rng_calls
        Q, g, m, s = _setup(h, gyr_noise=gn, acc_noise=an, mag_noise=1e6, in_degrees=in_deg)
        if not h.sym:
            return        # the concrete generator's draws are not observable: symbolic mode only
        from symnp.core import SR
        k = [k0]

        def draw(tag):
            k[0] += 1
            return SR(z3.Real(f'rng_{tag}_{k[0]}'))
        u = np.array([draw('u') for _ in range(3)])
        ng = np.array([[draw('n') for _ in range(3)] for _ in range(N)])
        na = np.array([[draw('n') for _ in range(3)] for _ in range(N)])
        D2R, R2D = np.pi / 180.0, 180.0 / np.pi
        w = np.array(s.ang_vel)
        omega_deg = w * R2D
        ptp = None
        bias_deg = None
        # the bias is (u - 0.5) * ptp(gyroscopes) / 200 with ptp taken by the code; compare through the reported attribute
        b = np.array(s.biases_gyroscopes)
        for i in range(N):
            R = rot.R_of_q(Q[i])
            h.check(f'in_degrees={in_deg}: accelerometers[{i}] == R^T g + acc_noise * n', h.eq(s.accelerometers[i], R.T @ g + an * na[i]))
            if in_deg:
                h.check(f'in_degrees=True: gyroscopes[{i}] - bias == omega (deg/s) + gyr_noise * n', h.eq(s.gyroscopes[i] - b, omega_deg[i] + gn * ng[i]))
            else:
                h.check(f'in_degrees=False: gyroscopes[{i}] - bias == omega (rad/s) + gyr_noise * n * DEG2RAD',
                        h.eq(s.gyroscopes[i] - b, w[i] + gn * ng[i] * D2R))


@harness('C20/frequency', functions=[FS + '__init__', 'ahrs.common.quaternion:QuaternionArray.angular_velocities'], max_paths=16,
         stubs=['ahrs.utils.sensors.GENERATOR: RNG contract (fresh symbols)'])
def frequency(h):
    """a non-default sampling frequency: the angular velocities are the quaternion differences over 1/freq"""
    h.definedness = 'assume'
    from ahrs import QuaternionArray
    Q = np.array([h.unit_quat(f'q{i}') for i in range(N)])
    if h.sym:
        from symnp import proxy
        smod.GENERATOR = proxy.PROXY.random
    for freq in (50.0, 200.0):
        s = Sensors(quaternions=Q.copy(), freq=freq, gyr_noise=0.0, acc_noise=0.0, mag_noise=1e6, in_degrees=True)
        W = np.array(QuaternionArray(Q.copy()).angular_velocities(1.0 / freq))
        h.check(f'freq={freq}: ang_vel[0] == 0', h.eq(np.array(s.ang_vel)[0], np.zeros(3)))
        for i in range(1, N):
            h.check(f'freq={freq}: ang_vel[{i}] == 2 Im(q*_(i-1) q_i) * freq', h.eq(np.array(s.ang_vel)[i], W[i - 1]))
        b = np.array(s.biases_gyroscopes)
        for i in range(N):
            h.check(f'freq={freq}: gyroscopes[{i}] - bias == ang_vel in deg/s', h.eq(s.gyroscopes[i] - b, np.array(s.ang_vel)[i] * (180.0 / np.pi)))
