"""C15 - WMM answers depend only on (date, place, frame), not on call path or history."""
import numpy as np
from ahrs.utils.wmm import WMM
from symnp.harness import harness

PROPERTY = dict(
    id='C15',
    explanation="Differential on the real code: the place is a concrete stratum (latitude / longitude from the canonical set "
                "{0, +-45, +-90} x {0, 60, +-180}) with a symbolic height, so that the degree-12 sums are polynomials in "
                "a/r(h) with concrete coefficients and differing computations are separated by the solver. (i) constructor vs "
                "method; (ii) fresh object vs an object that has already answered another query, with the date given again and "
                "with date=None; (iii) ENU vs NED; (iv) H, F, I, D from X, Y, Z (inverse-trig results compared by "
                "cross-multiplication); (v) longitude +180 vs -180; (vi) latitude 0 / longitude 0 through the constructor; "
                "(vii) definedness at the poles. The decimal-date round trip of the constructor is a finite check over the "
                "151 grid dates.",
    bounds="places: 15 concrete strata x symbolic height in [0, 100] km; one earlier query before the compared one; dates 2015.0..2030.0 step 0.1",
    outside=["general-position symbolic latitude/longitude for the history clause (covered structurally: the only state is the "
             "coefficient matrices and the date, both compared)", "rounding"],
    wall_limit=dict(quick=400, thorough=1500),
)
FW = 'ahrs.utils.wmm:WMM.'
DATE = 2022.5
PLACES_QUICK = [(45.0, 60.0), (0.0, 60.0), (45.0, 0.0), (-45.0, 180.0), (0.0, 0.0)]
PLACES_ALL = [(la, lo) for la in (0.0, 45.0, -45.0, 90.0, -90.0) for lo in (0.0, 60.0, 180.0)]


def _xyz(w):
    return np.array([w.X, w.Y, w.Z])


def _mk_path(lat, lon, tiers):
    @harness(f'C15/call-path.{lat:g}_{lon:g}', tiers=tiers, functions=[FW + '__init__', FW + 'magnetic_field', FW + 'reset_coefficients',
                                                                      FW + 'denormalize_coefficients'], max_paths=8)
    def hf(h, lat=lat, lon=lon):
        hgt = h.real('hgt', 0.0, 100.0)
        h.definedness = 'assume'
        ref = WMM(date=DATE, latitude=12.0, longitude=34.0)
        ref.magnetic_field(lat, lon, hgt, date=DATE)
        R = _xyz(ref)
        h.out('XYZ', R)
        # (i) constructor vs method
        c = WMM(date=DATE, latitude=lat, longitude=lon, height=hgt)
        if c.X is None:
            h.check('constructor computed the elements', h.false())
        else:
            h.check('constructor == method', h.eq(_xyz(c), R))
        # (ii) history: another query first, then this one with the date given again / with date=None
        u = WMM(date=DATE, latitude=12.0, longitude=34.0)
        u.magnetic_field(-20.0, 100.0, 3.0, date=DATE)
        first = dict(u.magnetic_elements)         # reading the elements between two queries must not freeze them
        u.magnetic_field(lat, lon, hgt, date=DATE)
        h.check('after another query (date given again) == fresh object', h.eq(_xyz(u), R))
        me = u.magnetic_elements
        h.check('magnetic_elements of the reused object reports the latest query', h.eq(np.array([me['X'], me['Y'], me['Z']]), R))
        v = WMM(date=DATE, latitude=12.0, longitude=34.0)
        v.magnetic_field(lat, lon, hgt, date=None)
        h.check('second query with date=None == fresh object', h.eq(_xyz(v), R))
        # the same with a decimal date that is not a whole tenth (2021.349): date=None must keep that date's answer
        d2 = 2021.349
        r2 = WMM(date=d2, latitude=12.0, longitude=34.0)
        r2.magnetic_field(lat, lon, hgt, date=d2)
        v2 = WMM(date=d2, latitude=12.0, longitude=34.0)
        v2.magnetic_field(lat, lon, hgt, date=None)
        h.check('date=None keeps the object\'s decimal date (2021.349)', h.eq(_xyz(v2), _xyz(r2)))
        c2 = WMM(date=d2, latitude=lat, longitude=lon, height=hgt)
        if c2.X is None:
            h.check('constructor computed the elements (2021.349)', h.false())
        else:
            h.check('constructor == method at the decimal date 2021.349', h.eq(_xyz(c2), _xyz(r2)))
        # (iii) frames
        e = WMM(date=DATE, latitude=12.0, longitude=34.0, frame='ENU')
        e.magnetic_field(lat, lon, hgt, date=DATE)
        h.check('ENU == (Y, X, -Z) of NED', h.eq(_xyz(e), np.array([R[1], R[0], -R[2]])))
        if (lat, lon) == (45.0, 60.0):
            # every spelling of the frame the constructor accepts means the same frame
            for spelling in ('enu', 'Enu'):
                raised, e2 = h.raises(lambda: WMM(date=DATE, latitude=12.0, longitude=34.0, frame=spelling), (ValueError,))
                if raised:
                    continue
                e2.magnetic_field(lat, lon, hgt, date=DATE)
                h.check(f"frame={spelling!r} (accepted) == frame='ENU'", h.eq(_xyz(e2), _xyz(e)))
        # (iv) derived elements
        h.check('H^2 == X^2 + Y^2, H >= 0', h.eq(ref.H * ref.H, R[0] * R[0] + R[1] * R[1]) & h.ge(ref.H, 0.0))
        h.check('F^2 == H^2 + Z^2, F >= 0', h.eq(ref.F * ref.F, ref.H * ref.H + R[2] * R[2]) & h.ge(ref.F, 0.0))
        if h.sym:
            from symnp import trig
            from symnp.core import SR
            ci, si = trig.cossin(ref.I * (np.pi / 180.0))
            h.check('I: F sin I == Z and F cos I == H', h.eq(ref.F * SR(si), R[2]) & h.eq(ref.F * SR(ci), ref.H))
            cdc, sdc = trig.cossin(ref.D * (np.pi / 180.0))
            h.check('D: H sin D == Y and H cos D == X', h.eq(ref.H * SR(sdc), R[1]) & h.eq(ref.H * SR(cdc), R[0]))
        else:
            h.check('I: F sin I == Z', h.eq(ref.F * np.sin(np.deg2rad(ref.I)), R[2]))
            h.check('D: H sin D == Y and H cos D == X', h.eq(ref.H * np.sin(np.deg2rad(ref.D)), R[1]) & h.eq(ref.H * np.cos(np.deg2rad(ref.D)), R[0]))
        # (v) +180 / -180
        if abs(lon) == 180.0:
            o = WMM(date=DATE, latitude=12.0, longitude=34.0)
            o.magnetic_field(lat, -lon, hgt, date=DATE)
            h.check('longitude +180 == -180', h.eq(_xyz(o), R, tol=1e-6))
    hf.__doc__ = f"place ({lat:g}, {lon:g}), symbolic height: constructor vs method, history, frames, derived elements"
    return hf


for _p in PLACES_ALL:
    _mk_path(_p[0], _p[1], ('quick', 'thorough') if _p in PLACES_QUICK else ('thorough',))


@harness('C15/dates', functions=[FW + 'reset_date', FW + '__init__'], max_paths=4,
         bounds='151 grid dates and 150 mid-grid dates (x.x49): finite, enumerated completely')
def dates(h):
    """constructor and method use the same secular-variation step dt and the same file for every listed date (finite domain)"""
    x = h.real('dummy', 0.0, 1.0)
    bad = []
    ds = [round(2015.0 + 0.1 * i, 1) for i in range(151)] + [round(2015.049 + 0.1 * i, 3) for i in range(150)]
    for d in ds:
        a = WMM.__new__(WMM)
        a.reset_date(d)                                  # what magnetic_field(date=d) does
        c = WMM(date=d, latitude=10.0, longitude=20.0)   # the constructor path
        if round(a.date_dec, 1) != round(c.date_dec, 1) or a.wmm_filename != c.wmm_filename:
            bad.append((d, a.date_dec, c.date_dec))
    h.note(f'date mismatches: {bad[:8]} (total {len(bad)})')
    h.check('constructor and method evaluate the model at the same tenth-of-a-year and file for every listed date',
            h.true() if not bad else h.false())
