"""C12 - SLERP follows the shortest geodesic at constant speed; NaN gaps filled along it; sign jumps removed."""
from fractions import Fraction as Fr
import itertools
import numpy as np
from ahrs import QuaternionArray
from ahrs.common import quaternion as qmod
from ahrs.common import orientation as ori
from symnp.harness import harness
from reference import rot

PROPERTY = dict(
    id='C12',
    explanation="Domain: unit p, q symbolic; weights from the rational grid {0, 1/4, 1/3, 1/2, 2/3, 3/4, 1} (t -> sin(t*theta0) is "
                "algebraic only for rational t: this is the bound). theta0 = arccos(p.q~) is a lazy angle atom; sin/cos of its "
                "rational multiples are polynomials in one (cos, sin) pair at granularity 12. Obligations: |out| = 1; out(0) = p; "
                "out(1) = q~ (q or -q, whichever is nearer); out = a p + b q~ with a, b >= 0 (minor arc); p.out = cos(t theta0) "
                "on the SLERP branch, within 1e-6 on the LERP branch (p.q~ > 0.9995); slerp(p, -q) = slerp(p, q). NaN filling: "
                "every interior NaN-run pattern for N <= 5 rows is enumerated (the masks are concrete, the values symbolic) and "
                "the filled rows must equal slerp(prev, next, linspace) while valid rows stay as they were. remove_jumps / "
                "q_correct: every output row is +- the input row, and no consecutive pair of output rows keeps |diff| > 1 "
                "(the code's own jump criterion), N <= 4 rows.",
    bounds="t in the rational grid; N <= 5 (slerp_nan), N <= 4 (remove_jumps)",
    outside=["irrational / non-grid weights", "rounding"],
)
FQ = 'ahrs.common.quaternion:'
GRID_A = [Fr(0), Fr(1, 2), Fr(1)]
GRID_B = [Fr(1, 4), Fr(3, 4)]
GRID_C = [Fr(1, 3), Fr(2, 3)]


def _tarr(h, ts):
    if h.sym:
        return np.array(ts, dtype=object)
    return np.array([float(t) for t in ts])


def _dot(a, b):
    return a[0] * b[0] + a[1] * b[1] + a[2] * b[2] + a[3] * b[3]


def _mk_slerp(fn_name, grid, gname, tiers):
    fnq = FQ + 'slerp' if fn_name == 'quaternion.slerp' else 'ahrs.common.orientation:slerp'

    @harness(f'C12/{fn_name}.{gname}', tiers=tiers, functions=[fnq], max_paths=16,
             bounds=f'weights {[str(t) for t in grid]}; |p.q| >= 1e-9 (the exact tie p.q = 0 is KF-C12-tie / C12/tie)')
    def hf(h, fn_name=fn_name, grid=grid):
        fn = qmod.slerp if fn_name == 'quaternion.slerp' else ori.slerp
        # every pair of unit quaternions with p.q = dd is (p, dd p + sqrt(1 - dd^2) e) with e a unit vector orthogonal to p:
        # this parametrisation of the whole domain makes p.q structurally visible to the solver
        p, e = h.unit_quat('p'), h.unit_quat('e')
        h.assume(h.eq(_dot(p, e), 0.0))
        dd = h.real('dd', -1.0, 1.0)
        h.assume(h.ge(dd, 1e-9) | h.le(dd, -1e-9))
        if h.sym:
            from symnp import core as _core
            rr = _core.sym_sqrt(1.0 - dd * dd)
        else:
            rr = np.sqrt(max(0.0, 1.0 - dd * dd))
            ee = e - _dot(p, e) * p
            e = ee / np.linalg.norm(ee)
        q = dd * p + rr * e
        d = dd
        h.lemma('p.q == dd', h.eq(_dot(p, q), dd))
        sg = h.split_signs([d], 'd')[0] if h.sym else (1 if d >= 0 else -1)
        qt = sg * q                      # the nearer of q and -q
        ad = sg * d
        out = fn(p.copy(), q.copy(), _tarr(h, grid))
        h.out('slerp', out)
        h.check('shape', h.shape_is(out, (len(grid), 4)))
        theta0 = None
        if h.sym:
            from symnp.core import CTX, SR, Lin, PiPoly
            for n, at in CTX.atoms.items():
                if n.startswith('acos_'):
                    theta0 = SR(at['var'], Lin({n: PiPoly({0: Fr(1)})}, PiPoly()))
        for k, t in enumerate(grid):
            o = out[k]
            h.check(f't={t}: |out| == 1', h.is_unit(o))
            if t == 0:
                h.check('out(0) == p', h.eq(o, p))
            if t == 1:
                h.check('out(1) == nearer of +-q', h.eq(o, qt))
            op, oq = _dot(o, p), _dot(o, qt)
            # out = a p + b q~ with a, b >= 0, stated without division: a (1-d^2) = o.p - (o.q~) d, b (1-d^2) = o.q~ - (o.p) d
            h.check(f't={t}: on the minor arc (non-negative combination of p and q~)',
                    h.ge(op - oq * ad, 0.0) & h.ge(oq - op * ad, 0.0))
            if h.sym:
                if theta0 is not None:
                    from symnp import trig
                    ct, _st = trig.cossin(theta0 * t)
                    h.check(f't={t}: constant speed: p.out == cos(t theta0)', h.eq(op, SR(ct)))
                else:
                    h.check(f't={t}: constant speed on the LERP branch (within 1e-5)', _speed(h, op, ad, t, h.true()))
            else:
                th = np.arccos(min(1.0, ad))
                h.check(f't={t}: constant speed: p.out == cos(t theta0)', h.eq(op, np.cos(float(t) * th), tol=1e-5))
        out2 = fn(p.copy(), (-q).copy(), _tarr(h, grid))
        h.check('slerp(p, -q) == slerp(p, q)', h.eq(out2, out))
    hf.__doc__ = f"{fn_name} at weights {[str(t) for t in grid]}: unit, endpoints, minor arc, constant angular speed, sign symmetry"
    return hf


def _speed(h, op, ad, t, lerp):
    """p.out == cos(t*theta0) where cos(theta0) = ad, stated through Chebyshev relations for the grid weights"""
    t = Fr(t)
    if t == 0:
        return h.eq(op, 1.0)
    if t == 1:
        return h.eq(op, ad)
    if t == Fr(1, 2):
        # cos(theta0/2) >= 0: 2 c^2 - 1 = ad
        exact = h.eq(2.0 * op * op - 1.0, ad) & h.ge(op, 0.0)
        return exact | (lerp & h.eq(2.0 * op * op - 1.0, ad, tol=1e-6) & h.ge(op, 0.0))
    if t in (Fr(1, 4), Fr(3, 4)):
        # c = cos(theta0/4) in [cos(pi/4), 1] resp. cos(3 theta0/4) in [cos(3pi/4), 1]; T4(cos(theta0/4)) = ad ; T4(x) = 8x^4 - 8x^2 + 1
        if t == Fr(1, 4):
            exact = h.eq(8.0 * op ** 4 - 8.0 * op ** 2 + 1.0, ad) & h.ge(op * op, 0.5) & h.ge(op, 0.0)
            return exact | (lerp & h.eq(8.0 * op ** 4 - 8.0 * op ** 2 + 1.0, ad, tol=1e-5) & h.ge(op, 0.0))
        # cos(3x) with x = theta0/4: relate through y = cos(theta0/4) is not observable; use T4(op) = cos(3 theta0) = T3(ad)
        t3 = 4.0 * ad ** 3 - 3.0 * ad
        exact = h.eq(8.0 * op ** 4 - 8.0 * op ** 2 + 1.0, t3)
        return exact | (lerp & h.eq(8.0 * op ** 4 - 8.0 * op ** 2 + 1.0, t3, tol=1e-5))
    if t == Fr(1, 3):
        exact = h.eq(4.0 * op ** 3 - 3.0 * op, ad) & h.ge(op, 0.5)
        return exact | (lerp & h.eq(4.0 * op ** 3 - 3.0 * op, ad, tol=1e-5) & h.ge(op, 0.5))
    if t == Fr(2, 3):
        t2 = 2.0 * ad * ad - 1.0
        exact = h.eq(4.0 * op ** 3 - 3.0 * op, t2)
        return exact | (lerp & h.eq(4.0 * op ** 3 - 3.0 * op, t2, tol=1e-5))
    return h.true()


_mk_slerp('quaternion.slerp', GRID_A, 'half', ('quick', 'thorough'))
_mk_slerp('quaternion.slerp', GRID_B, 'quarters', ('quick', 'thorough'))
_mk_slerp('quaternion.slerp', GRID_C, 'thirds', ('thorough',))
_mk_slerp('orientation.slerp', GRID_A, 'half', ('quick', 'thorough'))
_mk_slerp('orientation.slerp', GRID_B, 'quarters', ('thorough',))
_mk_slerp('orientation.slerp', GRID_C, 'thirds', ('thorough',))


def _rows(h, n, tag='r'):
    return [h.unit_quat(f'{tag}{i}') for i in range(n)]


def _mk_nan(n, mask, tiers):
    name = ''.join('N' if m else 'v' for m in mask)

    @harness(f'C12/slerp_nan.{name}', tiers=tiers, functions=[FQ + 'QuaternionArray.slerp_nan', FQ + 'slerp',
                                                               'ahrs.utils.core:get_nan_intervals',
                                                               FQ + 'QuaternionArray.remove_jumps'], max_paths=32,
             bounds=f'N={n} rows, NaN mask {name}')
    def hf(h, n=n, mask=mask):
        rows = _rows(h, n)
        # consecutive valid rows within a quarter turn of each other in the same hemisphere: no sign jump to remove here
        valid = [i for i in range(n) if not mask[i]]
        # (neighbours separated by a NaN run may also be in opposite hemispheres: remove_jumps does not see across the run and
        # slerp then interpolates towards the antipode; the rows themselves must stay as they are)
        for a, b in zip(valid[:-1], valid[1:]):
            d = _dot(rows[a], rows[b])
            h.assume(h.ge(d, 0.5) | (h.le(d, -0.5) if b - a > 1 else h.false()))
        A = np.array([r if not mask[i] else np.array([np.nan] * 4) for i, r in enumerate(rows)], dtype=object if h.sym else float)
        Q = QuaternionArray(np.array([rows[valid[0]]] * n))    # constructor rejects NaN rows: fill the array afterwards
        Q.array[:] = A
        Q[:] = A
        out = Q.slerp_nan(inplace=False)
        h.check('shape', h.shape_is(out, (n, 4)))
        for i in valid:
            h.check(f'valid row {i} unchanged', h.eq(out[i], rows[i]))
        # expected interpolants
        i = 0
        while i < n:
            if mask[i]:
                j = i
                while mask[j]:
                    j += 1
                k = j - i
                ts = [Fr(m, k + 1) for m in range(1, k + 1)]
                exp = qmod.slerp(rows[i - 1].copy(), rows[j].copy(), _tarr(h, ts))
                for m in range(k):
                    h.check(f'filled row {i + m} == slerp(prev, next, {ts[m]})', h.eq(out[i + m], exp[m]))
                    h.check(f'filled row {i + m} is a unit quaternion', h.is_unit(out[i + m]))
                i = j
            else:
                i += 1
        h.out('filled', np.array([out[i] for i in valid]))
    hf.__doc__ = f"slerp_nan on {n} rows with NaN mask {name}: valid rows unchanged, NaN rows are the interpolants"
    return hf


def _masks(n):
    for m in itertools.product([False, True], repeat=n):
        if m[0] or m[-1] or not any(m):
            continue
        yield m


_QUICK_MASKS = {(False, True, False), (False, True, True, False), (False, True, False, True, False)}
for _n in (3, 4, 5):
    for _m in _masks(_n):
        _mk_nan(_n, _m, ('quick', 'thorough') if _m in _QUICK_MASKS else ('thorough',))


def _mk_jumps(n, tiers):
    @harness(f'C12/remove_jumps.N{n}', tiers=tiers, functions=[FQ + 'QuaternionArray.remove_jumps', 'ahrs.common.orientation:q_correct'],
             max_paths=64, bounds=f'N={n} rows')
    def hf(h, n=n):
        rows = _rows(h, n)
        # a sequence of rotations that moves by less than 60 degrees per step, stored with arbitrary signs:
        # |r_i . r_{i+1}| >= 0.87 (either sign) -- a genuine jump has |diff| > 1, a non-jump has |diff| < 0.52
        for a, b in zip(rows[:-1], rows[1:]):
            d = _dot(a, b)
            h.assume(h.ge(d, 0.87) | h.le(d, -0.87))
        A = np.array(rows)
        Q = QuaternionArray(A.copy())
        Q.remove_jumps()
        out = np.array(Q.array)
        h.out('out', out)
        C = ori.q_correct(A.copy())
        for i in range(n):
            h.check(f'row {i} is +- the input row', h.eq_up_to_sign(out[i], rows[i]))
            h.check(f'q_correct row {i} is +- the input row', h.eq_up_to_sign(C[i], rows[i]))
        for i in range(n - 1):
            h.check(f'no jump left between rows {i},{i + 1}', h.ge(_dot(out[i], out[i + 1]), 0.0))
            h.check(f'q_correct: no jump left between rows {i},{i + 1}', h.ge(_dot(C[i], C[i + 1]), 0.0))
    hf.__doc__ = f"remove_jumps / q_correct on {n} rows with arbitrary sign pattern: same rotations, no jump left"
    return hf


_mk_jumps(3, ('quick', 'thorough'))
_mk_jumps(4, ('quick', 'thorough'))
_mk_jumps(5, ('thorough',))


@harness('C12/tie', functions=[FQ + 'slerp'], max_paths=8)
def tie(h):
    """exactly orthogonal endpoints (p.q = 0, both q and -q equally near): unit interpolants from p to one of +-q"""
    p = h.unit_quat('p')
    a = h.unit_quat('a')
    # q := a minus its component along p, normalised, is built by the harness only for p = e_k strata; here: q orthogonal to p
    q = h.unit_quat('q')
    h.assume(h.eq(_dot(p, q), 0.0))
    out = qmod.slerp(p.copy(), q.copy(), _tarr(h, [Fr(0), Fr(1, 2), Fr(1)]))
    h.out('slerp', out)
    h.check('out(0) == p', h.eq(out[0], p))
    h.check('out(1) == +-q', h.eq_up_to_sign(out[2], q))
    for k in range(3):
        h.check(f'|out[{k}]| == 1', h.is_unit(out[k]))
    # KF-C12-tie: at the exact tie, slerp(p, -q) ends at -q while slerp(p, q) ends at q
    out2 = qmod.slerp(p.copy(), (-q).copy(), _tarr(h, [Fr(1)]))
    h.check('slerp(p, -q) == slerp(p, q) (outside KF-C12-tie)', h.kf('KF-C12-tie', h.true()) | h.eq(out2[0], out[2]))
    h.check('at the tie slerp(p, -q)(1) is +-q (known defect only)', h.eq_up_to_sign(out2[0], q))
