"""C07 - array (vectorised) entry points equal the scalar entry points row by row."""
import numpy as np
from ahrs import Quaternion, QuaternionArray, DCM
from ahrs.common import orientation as ori
from ahrs.utils import metrics
from ahrs.filters import Tilt, SAAM, FAMC, FLAE
from symnp.harness import harness
from reference import rot

PROPERTY = dict(
    id='C07',
    explanation="Differential: the N-row entry point and the single-item entry point are both executed on the same symbolic "
                "rows (N=2, plus a one-row batch) and their results compared row by row by the solver (the two copies are "
                "written differently, so equality is modulo real algebra; inverse-trig results are compared through their "
                "arguments).",
    bounds="N = 2 rows (and N = 1); estimators: one sample vs one-row/two-row batch",
    outside=["rounding differences between the two code paths"],
)

FQA = ['ahrs.common.quaternion:QuaternionArray.to_DCM', 'ahrs.common.quaternion:QuaternionArray.conjugate',
       'ahrs.common.quaternion:QuaternionArray.to_angles', 'ahrs.common.quaternion:QuaternionArray.from_rpy',
       'ahrs.common.quaternion:Quaternion.to_angles', 'ahrs.common.quaternion:Quaternion.from_rpy',
       'ahrs.common.quaternion:Quaternion.to_DCM', 'ahrs.common.quaternion:Quaternion.conjugate']


@harness('C07/QuaternionArray-vs-Quaternion', functions=FQA, bounds='N=2')
def qa_vs_q(h):
    """to_DCM, conjugate, to_angles, is_* of QuaternionArray rows equal the Quaternion results"""
    q = h.unit_quat('q')
    p = h.unit_quat('p')
    for v in (q, p):
        # arcsin argument is -R31: 1 - R31^2 = R32^2 + R33^2 (lemma that makes |arg| <= 1 easy for the solver)
        a = 2.0 * (v[0] * v[2] - v[3] * v[1])
        h.lemma('1 - (2(wy-zx))^2 is a sum of squares',
                h.eq(1.0 - a * a, (2.0 * (v[0] * v[1] + v[2] * v[3])) ** 2 + (1.0 - 2.0 * (v[1] * v[1] + v[2] * v[2])) ** 2))
    QA = QuaternionArray(np.array([q, p]))
    singles = [Quaternion(q.copy()), Quaternion(p.copy())]
    R = QA.to_DCM()
    C = QA.conjugate()
    A = QA.to_angles()
    h.check('to_angles shape', h.shape_is(A, (2, 3)))
    for i, S in enumerate(singles):
        h.check(f'to_DCM row{i}', h.eq(R[i], S.to_DCM()))
        h.check(f'conjugate row{i}', h.eq(C[i], np.array(S.conjugate)))
        a1 = S.to_angles()
        for k in range(3):
            h.check(f'to_angles row{i}[{k}]', h.angle_eq(A[i, k], a1[k]))
    one = QuaternionArray(np.array([q]))
    h.check('one-row to_DCM', h.eq(one.to_DCM()[0], singles[0].to_DCM()))


@harness('C07/from_rpy', functions=FQA, bounds='N=2')
def from_rpy(h):
    """QuaternionArray(rpy=(2,3)) rows equal Quaternion(rpy=row)"""
    ang = [[h.angle(f'{n}{i}', 'pm_pi') for n in ('roll', 'pitch', 'yaw')] for i in range(2)]
    A = h.arr(ang)
    QA = np.array(QuaternionArray(rpy=A))
    h.out('QA', QA)
    for i in range(2):
        qs = np.array(Quaternion(rpy=A[i].copy()))
        h.out(f'q{i}', qs)
        h.check(f'row{i}', h.eq(QA[i], qs))


def _pure_real(h):
    pass


@harness('C07/predicates', functions=['ahrs.common.quaternion:QuaternionArray.is_pure', 'ahrs.common.quaternion:QuaternionArray.is_real',
                                       'ahrs.common.quaternion:QuaternionArray.is_versor', 'ahrs.common.quaternion:QuaternionArray.is_identity',
                                       'ahrs.common.quaternion:Quaternion.is_pure', 'ahrs.common.quaternion:Quaternion.is_real',
                                       'ahrs.common.quaternion:Quaternion.is_versor', 'ahrs.common.quaternion:Quaternion.is_identity'],
         bounds='N=2; rows at least 1e-3 away from each predicate threshold (the two copies use isclose vs ==)', max_paths=128)
def predicates(h):
    """is_pure / is_real / is_versor / is_identity agree between the array and the single class"""
    q = h.unit_quat('q')
    p = h.unit_quat('p')
    # stay away from the isclose band, where the array copy (isclose) and the scalar copy (==) legitimately differ by < 1e-5
    for v in (q, p):
        for e in v:
            h.assume(h.eq(e, 0.0) | h.ge(e * e, 1e-6))
        h.assume(h.eq(v[0], 1.0) | h.le(v[0], 0.999))
    QA = QuaternionArray(np.array([q, p]))
    for name in ('is_pure', 'is_real', 'is_versor', 'is_identity'):
        arr = getattr(QA, name)()
        for i, v in enumerate((q, p)):
            s = getattr(Quaternion(v.copy()), name)()
            a = arr[i]
            if h.sym:
                a, s = bool(a), bool(s)     # forks; compared per path
            h.check(f'{name} row{i}', h.true() if bool(a) == bool(s) else h.false())


def _dcm_methods(method, tiers):
    @harness(f'C07/from_DCM.{method}', tiers=tiers, functions=['ahrs.common.quaternion:QuaternionArray.from_DCM',
                                                                'ahrs.common.quaternion:Quaternion.from_DCM',
                                                                f'ahrs.common.orientation:{method}'], bounds='N=2', max_paths=128)
    def hf(h, method=method):
        q = h.unit_quat('q')
        h.assume(h.ge(q[0], 1e-3))       # away from half-turns (closed-form methods are not defined there)
        sgq = h.split_signs([q[1], q[2], q[3]], 'q')
        # second row: the same components permuted (another unit quaternion, no new symbols)
        p = h.arr([q[0], q[2], q[3], q[1]])
        h.pool(2.0 * q[0], 2.0 * sgq[0] * q[1], 2.0 * sgq[1] * q[2], 2.0 * sgq[2] * q[3])
        Rs = np.array([rot.R_of_q(q), rot.R_of_q(p)])
        QA = np.array(QuaternionArray(DCM=Rs.copy(), method=method))
        h.out('QA', QA)
        for i in range(2):
            qs = np.array(Quaternion(dcm=Rs[i].copy(), method=method))
            if method == 'hughes':
                kf = h.kf('KF-C07-hughes-batch', h.true())
                h.check(f'row{i} (outside KF-C07-hughes-batch)', kf | h.eq(QA[i], qs))
                # the known defect only: the batch row is the conjugate of the single result (or, inside the single
                # path's isclose(trace, 3) shortcut, the single result is the identity)
                v = (q, p)[i]
                h.check(f'row{i}: batch == conj(single) or single is the shortcut identity',
                        h.eq(QA[i], rot.qconj(qs)) | (h.le(4.0 * (1.0 - v[0] * v[0]), 3.001e-5) & h.eq(qs, np.array([1.0, 0.0, 0.0, 0.0]))))
            else:
                h.check(f'row{i}', h.eq(QA[i], qs))
    hf.__doc__ = f"QuaternionArray(DCM=(2,3,3), method='{method}') rows equal Quaternion(dcm=row, method='{method}')"
    return hf


_dcm_methods('shepperd', ('thorough',))
_dcm_methods('chiaverini', ('quick', 'thorough'))
_dcm_methods('sarabandi', ('thorough',))
_dcm_methods('hughes', ('quick', 'thorough'))


@harness('C07/chiaverini-hughes.3D-vs-2D', functions=['ahrs.common.orientation:chiaverini', 'ahrs.common.orientation:hughes'],
         bounds='N=2', max_paths=128)
def chiav3d(h):
    """chiaverini (N,3,3) equals chiaverini (3,3) per row; hughes 3-D branch vs 2-D branch"""
    q = h.unit_quat('q')
    p = h.unit_quat('p')
    for v in (q, p):
        h.assume(h.ge(v[0], 1e-3))
    sgq = h.split_signs([q[1], q[2], q[3]], 'q')
    h.pool(2.0 * q[0], 2.0 * sgq[0] * q[1], 2.0 * sgq[1] * q[2], 2.0 * sgq[2] * q[3])
    Rs = np.array([rot.R_of_q(q), rot.R_of_q(q)])
    B = ori.chiaverini(Rs.copy())
    s = ori.chiaverini(Rs[0].copy())
    h.out('chiaverini', B)
    h.check('chiaverini row0', h.eq(B[0], s))
    h.check('chiaverini row1', h.eq(B[1], s))
    HB = ori.hughes(Rs.copy())
    hs = ori.hughes(Rs[0].copy())
    h.out('hughes', HB)
    kf = h.kf('KF-C07-hughes-3D', h.true())
    h.check('hughes row0 (outside KF-C07-hughes-3D)', kf | h.eq(HB[0], hs))
    h.check('hughes row0: batch == conj(single) or single is the shortcut identity',
            h.eq(HB[0], rot.qconj(hs)) | (h.le(4.0 * (1.0 - q[0] * q[0]), 3.001e-5) & h.eq(hs, np.array([1.0, 0.0, 0.0, 0.0]))))


@harness('C07/metrics', functions=['ahrs.utils.metrics:chordal', 'ahrs.utils.metrics:qdist', 'ahrs.utils.metrics:qeip',
                                   'ahrs.utils.metrics:qcip', 'ahrs.utils.metrics:qad'], bounds='N=2', max_paths=128)
def metric_rows(h):
    """batch metric functions equal the single-pair functions row by row"""
    q1, q2 = h.unit_quat('qa'), h.unit_quat('qb')
    # second row: (qb, a unit quaternion orthogonal to qa built from qa's components) -- keeps the number of symbols at 8
    p1 = q2
    p2 = h.arr([q1[1], -q1[0], q1[3], -q1[2]])
    # outside the single path's allclose -> 0.0 shortcut (handled in C18); relative angle >= 1e-3
    for a, b in ((q1, q2), (p1, p2)):
        # rows whose scalar parts differ in magnitude by >= 1e-2: keeps the single path's allclose(+-q1, q2) -> 0.0 shortcut
        # (examined in C18) off the path by linear reasoning
        # (stated linearly so that the shortcut is refuted by linear arithmetic)
        h.assume(h.ge(a[0] - b[0], 0.01) | h.le(a[0] - b[0], -0.01))
        h.assume(h.ge(a[0] + b[0], 0.01) | h.le(a[0] + b[0], -0.01))
    for a, b in ((q1, q2), (p1, p2)):
        # Lagrange identity: 1 - (a.b)^2 is a sum of squares, so |a.b| <= 1 (arccos / clip arguments)
        d = a[0] * b[0] + a[1] * b[1] + a[2] * b[2] + a[3] * b[3]
        sq = 0.0
        for i in range(4):
            for j in range(i + 1, 4):
                sq = sq + (a[i] * b[j] - a[j] * b[i]) ** 2
        h.lemma('Lagrange: 1 - (a.b)^2 == sum (a_i b_j - a_j b_i)^2', h.eq(1.0 - d * d, sq))
    A, B = np.array([q1, p1]), np.array([q2, p2])
    for fn in (metrics.qdist, metrics.qeip):
        arr = fn(A.copy(), B.copy())
        h.out(fn.__name__, arr)
        for i, (a, b) in enumerate(((q1, q2), (p1, p2))):
            h.check(f'{fn.__name__} row{i}', h.eq(arr[i], fn(a.copy(), b.copy())))
    for fn in (metrics.qcip, metrics.qad):
        arr = fn(A.copy(), B.copy())
        for i, (a, b) in enumerate(((q1, q2), (p1, p2))):
            h.check(f'{fn.__name__} row{i}', h.angle_eq(arr[i], fn(a.copy(), b.copy())))
    R1, R2 = np.array([rot.R_of_q(q1), rot.R_of_q(p1)]), np.array([rot.R_of_q(q2), rot.R_of_q(p2)])
    ch = metrics.chordal(R1.copy(), R2.copy())
    for i in range(2):
        h.check(f'chordal row{i}', h.eq(ch[i], metrics.chordal(R1[i].copy(), R2[i].copy())))


@harness('C07/Tilt', functions=['ahrs.filters.tilt:Tilt._compute_all', 'ahrs.filters.tilt:Tilt.estimate'], bounds='N=2',
         max_paths=64)
def tilt_rows(h):
    """Tilt(acc (2,3)[, mag]) rows equal Tilt().estimate(row) for every representation"""
    acc = h.mat('a', 2, 3, -2, 2)
    mag = h.mat('m', 2, 3, -2, 2)
    for i in range(2):
        h.assume(h.ge(acc[i, 1] * acc[i, 1] + acc[i, 2] * acc[i, 2], 0.01))
        h.assume(h.ge(mag[i] @ mag[i], 0.01))
    for rep in ('angles', 'quaternion'):
        for use_mag in (False, True):
            t = Tilt(acc.copy(), mag.copy() if use_mag else None, representation=rep)
            if rep == 'quaternion':
                h.out(f"Q{'+mag' if use_mag else ''}", t.Q)
            for i in range(2):
                s = Tilt().estimate(acc[i].copy(), mag[i].copy() if use_mag else None, representation=rep)
                tag = f"{rep}{'+mag' if use_mag else ''} row{i}"
                if rep == 'angles':
                    for k in range(3):
                        h.check(f'{tag}[{k}]', h.angle_eq(t.Q[i, k], s[k]))
                elif use_mag:
                    # KF-C07-tilt-signed-zero: heading exactly 0 / 180 degrees (b_y == 0, i.e. m_y a_z == m_z a_y): the two copies
                    # form -b_y with zeros of opposite sign, arctan2(+-0, b_x < 0) = +-pi, and the rows come out antipodal
                    kf = h.kf('KF-C07-tilt-signed-zero', h.eq(mag[i, 1] * acc[i, 2], mag[i, 2] * acc[i, 1]))
                    h.check(tag + ' (outside KF-C07-tilt-signed-zero)', kf | h.eq(t.Q[i], s))
                else:
                    h.check(tag, h.eq(t.Q[i], s))
    one = Tilt(acc[0].copy(), mag[0].copy())
    h.check('one sample == estimate', h.eq(one.Q, Tilt().estimate(acc[0].copy(), mag[0].copy())))


@harness('C07/SAAM', functions=['ahrs.filters.saam:SAAM._compute_all', 'ahrs.filters.saam:SAAM.estimate'], bounds='N=2')
def saam_rows(h):
    """SAAM(acc (2,3), mag (2,3)) rows equal SAAM().estimate(row)"""
    acc = h.mat('a', 2, 3, -2, 2)
    mag = h.mat('m', 2, 3, -2, 2)
    for i in range(2):
        h.assume(h.ge(acc[i] @ acc[i], 0.01))
        h.assume(h.ge(mag[i] @ mag[i], 0.01))
    h.definedness = 'assume'
    S = SAAM(acc.copy(), mag.copy())
    h.out('Q', S.Q)
    for i in range(2):
        s = SAAM().estimate(acc[i].copy(), mag[i].copy())
        h.check(f'row{i}', h.eq(S.Q[i], s))
    one = SAAM(acc[0].copy(), mag[0].copy())
    h.check('one sample', h.eq(one.Q, SAAM().estimate(acc[0].copy(), mag[0].copy())))
