"""C19 - public functions never modify the caller's arrays and are repeatable."""
import numpy as np
import ahrs
from ahrs import Quaternion, QuaternionArray, DCM
from ahrs.common import orientation as ori
from ahrs.common import quaternion as qmod
from ahrs.utils import metrics
from ahrs import filters as flt
from symnp.harness import harness, _flat
from reference import rot

PROPERTY = dict(
    id='C19',
    explanation="Table-driven: each public callable is executed on fresh symbolic argument arrays (deliberately not "
                "normalised; degrees where an option exists). Object arrays make aliasing exact: an in-place `q /= norm(q)` "
                "shows up as the caller's element having become the term q/|q|. Obligation 1: after the call every element of "
                "every argument equals its saved term (for all inputs). Obligation 2: a second call with the same argument "
                "objects returns the same result.",
    bounds="one + one call per callable; N = 2 rows for array-of-rows arguments",
    outside=["callables whose arguments are scalars only (nothing to mutate)", "rounding"],
    assumptions=["definedness (non-zero norms) is assumed here; it is the subject of C03/C11"],
)


def _vecnz(h, name, n, lo=-3, hi=3):
    v = h.vec(name, n, lo, hi)
    s = 0.0
    for e in v:
        s = s + e * e
    h.assume(h.ge(s, 0.01))
    return v


def _flatres(r):
    if r is None:
        return []
    if isinstance(r, (tuple, list)):
        out = []
        for e in r:
            out += _flatres(e)
        return out
    if isinstance(r, np.ndarray):
        return list(np.asarray(r).ravel())
    return [r]


def _same(h, a, b):
    """results equal (angles produced by inverse trig are the same atom when their arguments are equal)"""
    fa, fb = _flatres(a), _flatres(b)
    if len(fa) != len(fb):
        return h.false()
    p = h.true()
    for x, y in zip(fa, fb):
        p = p & h.eq(x, y)
    return p


def mut_check(h, tag, call, args, kf=None, kf_args=None, repeat=True):
    """args: list of arrays handed to `call`. kf: id of a known finding covering mutation of the arguments listed in kf_args"""
    saved = [np.array(a, copy=True) for a in args]
    r1 = call(*args)
    for i, (a, s0) in enumerate(zip(args, saved)):
        same = h.eq(np.asarray(a), s0)
        if kf is not None and (kf_args is None or i in kf_args):
            same = h.kf(kf, h.true()) | same
            h.check(f'{tag}: argument {i} unchanged (outside {kf})', same)
        else:
            h.check(f'{tag}: argument {i} unchanged', same)
    if repeat:
        r2 = call(*args)
        rep = _same(h, r1, r2)
        if kf is not None:
            rep = h.kf(kf, h.true()) | rep
        h.check(f'{tag}: second call returns the same result', rep)
    return r1


FO = 'ahrs.common.orientation:'


@harness('C19/orientation.quaternion-helpers', allowed_exc=(ValueError,), functions=[FO + n for n in ('q_conj', 'q_norm', 'q_prod', 'q_mult_L', 'q_mult_R',
                                                                             'q_rot', 'quat2axang', 'q2R', 'q2euler', 'q2rpy')])
def ori_q(h):
    """orientation.py helpers taking quaternions (non-normalised inputs)"""
    h.definedness = 'assume'
    q = _vecnz(h, 'q', 4)
    p = _vecnz(h, 'p', 4)
    v = h.vec('v', 3)
    mut_check(h, 'q_conj', ori.q_conj, [q])
    mut_check(h, 'q_norm', ori.q_norm, [q])
    mut_check(h, 'q_prod', ori.q_prod, [p, q])
    mut_check(h, 'q_rot', ori.q_rot, [q, v])
    mut_check(h, 'q_mult_L', ori.q_mult_L, [h.arr(list(q))])
    mut_check(h, 'q_mult_R', ori.q_mult_R, [h.arr(list(q))])
    mut_check(h, 'quat2axang', ori.quat2axang, [h.arr(list(q))])
    mut_check(h, 'q2R v1', lambda a: ori.q2R(a, 1), [h.arr(list(q))])
    mut_check(h, 'q2R v2', lambda a: ori.q2R(a, 2), [h.arr(list(q))])
    mut_check(h, 'q2R batch', lambda a: ori.q2R(a, 1), [h.arr([list(q), list(p)])])
    mut_check(h, 'q2rpy', ori.q2rpy, [h.arr(list(q))], repeat=False)


@harness('C19/orientation.angles', allowed_exc=(ValueError,), functions=[FO + n for n in ('axang2quat', 'rpy2q', 'am2angles', 'acc2q', 'am2DCM', 'am2q',
                                                                 'ecompass')])
def ori_angles(h):
    """axang2quat (axis), rpy2q (degrees), am2angles, acc2q, am2DCM, am2q, ecompass"""
    h.definedness = 'assume'
    axis = _vecnz(h, 'ax', 3)
    ang = h.angle('ang', 'pm_pi')
    mut_check(h, 'axang2quat', lambda a: ori.axang2quat(a, ang), [axis])
    rpy_deg = h.arr([h.angle('r', 'pm_pi', 'deg'), h.angle('p', 'pm_halfpi', 'deg'), h.angle('y', 'pm_pi', 'deg')])
    mut_check(h, 'rpy2q(in_deg=True)', lambda a: ori.rpy2q(a, in_deg=True), [rpy_deg], repeat=False)
    rpy = h.arr([h.angle('r2', 'pm_pi'), h.angle('p2', 'pm_halfpi'), h.angle('y2', 'pm_pi')])
    mut_check(h, 'rpy2q', ori.rpy2q, [rpy])
    a = _vecnz(h, 'a', 3)
    m = _vecnz(h, 'm', 3)
    mut_check(h, 'acc2q', ori.acc2q, [a], repeat=False)
    mut_check(h, 'am2DCM', ori.am2DCM, [a, m], repeat=False)
    mut_check(h, 'ecompass', ori.ecompass, [a, m], repeat=False)
    mut_check(h, 'am2angles (1-D)', ori.am2angles, [h.arr(list(a)), h.arr(list(m))], repeat=False)
    mut_check(h, 'am2angles (2-D)', ori.am2angles, [h.arr([list(a), list(m)]), h.arr([list(m), list(a)])], repeat=False)


@harness('C19/orientation.slerp-dcm', allowed_exc=(ValueError,), functions=[FO + n for n in ('slerp', 'chiaverini', 'hughes', 'sarabandi', 'shepperd',
                                                                    'dcm2quat', 'q_correct')], max_paths=16)
def ori_slerp(h):
    """orientation.slerp (q1 sign flip), q_correct, DCM->quaternion functions"""
    h.definedness = 'assume'
    q0 = h.unit_quat('a')
    q1 = h.unit_quat('b')
    t = np.array([0.25, 0.5])
    mut_check(h, 'orientation.slerp', lambda x, y: ori.slerp(x, y, t), [q0, q1], repeat=False)
    mut_check(h, 'quaternion.slerp', lambda x, y: qmod.slerp(x, y, t), [h.arr(list(q0)), h.arr(list(q1))], repeat=False)
    Q = h.arr([list(q0), list(q1)])
    mut_check(h, 'q_correct', ori.q_correct, [Q], repeat=False)
    R = rot.R_of_q(q0)
    for fn in (ori.chiaverini, ori.hughes, ori.shepperd, ori.sarabandi, ori.dcm2quat):
        mut_check(h, fn.__name__, fn, [np.array(R, copy=True)], repeat=False)


@harness('C19/classes', allowed_exc=(ValueError,), functions=['ahrs.common.quaternion:Quaternion.__new__', 'ahrs.common.quaternion:QuaternionArray.__new__',
                                   'ahrs.common.dcm:DCM.__new__', 'ahrs.common.dcm:DCM.from_quaternion',
                                   'ahrs.common.quaternion:Quaternion.product', 'ahrs.common.quaternion:Quaternion.rotate',
                                   'ahrs.common.quaternion:QuaternionArray.rotate_by'], max_paths=16)
def classes(h):
    """constructors and methods of Quaternion / QuaternionArray / DCM"""
    h.definedness = 'assume'
    q = _vecnz(h, 'q', 4)
    p = _vecnz(h, 'p', 4)
    v = h.vec('v', 3)
    mut_check(h, 'Quaternion(q)', lambda a: np.array(Quaternion(a)), [q])
    mut_check(h, 'Quaternion(q3)', lambda a: np.array(Quaternion(a)), [v])
    mut_check(h, 'QuaternionArray(Q)', lambda a: np.array(QuaternionArray(a)), [h.arr([list(q), list(p)])])
    mut_check(h, 'DCM.from_quaternion', DCM.from_quaternion, [q])
    mut_check(h, 'DCM.from_quaternion batch', DCM.from_quaternion, [h.arr([list(q), list(p)])])
    mut_check(h, 'DCM(q=q)', lambda a: np.array(DCM(q=a)), [q], repeat=False)
    P_ = Quaternion(np.array(p, copy=True))
    mut_check(h, 'Quaternion.product', lambda a: P_.product(a), [q])
    mut_check(h, 'Quaternion.rotate', lambda a: P_.rotate(a), [v])
    QA = QuaternionArray(h.arr([list(q), list(p)]))
    mut_check(h, 'QuaternionArray.rotate_by', lambda a: np.array(QA.rotate_by(a)), [h.arr(list(p))], repeat=False)
    u = h.unit_quat('u')
    R = rot.R_of_q(u)
    mut_check(h, 'DCM(R)', lambda a: np.array(DCM(a)), [R], repeat=False)
    mut_check(h, 'Quaternion(dcm=R)', lambda a: np.array(Quaternion(dcm=a)), [np.array(R, copy=True)], repeat=False)


@harness('C19/metrics', allowed_exc=(ValueError,), functions=['ahrs.utils.metrics:' + n for n in ('chordal', 'identity_deviation', 'qdist', 'qeip', 'qcip',
                                                                          'qad', 'euclidean', 'rmse')], max_paths=32)
def metric_fns(h):
    """metric functions (non-normalised quaternions)"""
    h.definedness = 'assume'
    q = _vecnz(h, 'q', 4)
    p = _vecnz(h, 'p', 4)
    h.assume(h.ge(q[0] - p[0], 0.01) | h.le(q[0] - p[0], -0.01))
    h.assume(h.ge(q[0] + p[0], 0.01) | h.le(q[0] + p[0], -0.01))
    for fn in (metrics.qdist, metrics.qeip, metrics.qcip, metrics.qad):
        mut_check(h, fn.__name__, fn, [q, p], repeat=False)
        mut_check(h, fn.__name__ + ' batch', fn, [h.arr([list(q), list(p)]), h.arr([list(p), list(q)])], repeat=False)
    u, w = h.unit_quat('u'), h.unit_quat('w')
    R1, R2 = rot.R_of_q(u), rot.R_of_q(w)
    for fn in (metrics.chordal, metrics.identity_deviation):
        mut_check(h, fn.__name__, fn, [R1, R2], repeat=False)
    mut_check(h, 'euclidean', metrics.euclidean, [q, p], repeat=False)
    mut_check(h, 'rmse', metrics.rmse, [q, p], repeat=False)


FF = 'ahrs.filters.'


@harness('C19/filters.single-frame', allowed_exc=(ValueError,), functions=[FF + 'tilt:Tilt.estimate', FF + 'saam:SAAM.estimate', FF + 'famc:FAMC.estimate',
                                                 FF + 'fqa:FQA.estimate', FF + 'triad:TRIAD.estimate', FF + 'flae:FLAE.__init__',
                                                 FF + 'quest:QUEST.estimate'], max_paths=32)
def single_frame(h):
    """estimate() of the single-frame estimators and their constructors (acc, mag, weights, references)"""
    h.definedness = 'assume'
    a = _vecnz(h, 'a', 3)
    m = _vecnz(h, 'm', 3)
    mut_check(h, 'Tilt.estimate', lambda x, y: flt.Tilt().estimate(x, y), [a, m], repeat=False)
    mut_check(h, 'Tilt(acc, mag)', lambda x, y: flt.Tilt(x, y).Q, [h.arr([list(a), list(m)]), h.arr([list(m), list(a)])], repeat=False)
    mut_check(h, 'SAAM.estimate', lambda x, y: flt.SAAM().estimate(x, y), [a, m], repeat=False)
    mut_check(h, 'FAMC.estimate', lambda x, y: flt.FAMC().estimate(x, y), [a, m], repeat=False)
    mut_check(h, 'TRIAD.estimate', lambda x, y: flt.TRIAD().estimate(x, y), [a, m], repeat=False)
    mut_check(h, 'TRIAD(w1, w2, v1, v2)', lambda x, y, r1, r2: flt.TRIAD(x, y, r1, r2).A, [a, m, h.arr(list(m)), h.arr(list(a))], repeat=False)
    w = h.arr([h.real('w0', 0.1, 2.0), h.real('w1', 0.1, 2.0)])
    mut_check(h, 'FLAE(weights=w)', lambda ww: flt.FLAE(weights=ww).a, [w], repeat=False)


@harness('C19/filters.FQA', allowed_exc=(ValueError,), functions=[FF + 'fqa:FQA.estimate'], max_paths=48)
def fqa(h):
    """FQA.estimate(acc, mag)"""
    h.definedness = 'assume'
    a = _vecnz(h, 'a', 3)
    m = _vecnz(h, 'm', 3)
    f = flt.FQA(mag_ref=np.array([0.6, 0.0, 0.8]))
    mut_check(h, 'FQA.estimate', lambda x, y: f.estimate(x, y), [a, m], repeat=False)


@harness('C19/filters.recursive', allowed_exc=(ValueError,), functions=[FF + 'madgwick:Madgwick.updateIMU', FF + 'madgwick:Madgwick.updateMARG',
                                              FF + 'mahony:Mahony.updateIMU', FF + 'mahony:Mahony.updateMARG',
                                              FF + 'angular:AngularRate.update', FF + 'complementary:Complementary.__init__'],
         max_paths=32)
def recursive(h):
    """update steps of recursive filters: the state quaternion and the samples handed in stay as they were"""
    h.definedness = 'assume'
    q = h.unit_quat('q')
    g = _vecnz(h, 'g', 3)
    a = _vecnz(h, 'a', 3)
    m = _vecnz(h, 'm', 3)
    mut_check(h, 'Madgwick.updateIMU', lambda *x: flt.Madgwick().updateIMU(*x), [q, g, a], repeat=False)
    mut_check(h, 'Mahony.updateIMU', lambda *x: flt.Mahony().updateIMU(*x), [h.arr(list(q)), g, a], repeat=False)
    mut_check(h, 'Mahony.updateMARG', lambda *x: flt.Mahony().updateMARG(*x), [h.arr(list(q)), g, a, m], repeat=False)
    mut_check(h, 'AngularRate.update', lambda *x: flt.AngularRate().update(*x), [h.arr(list(q)), g], repeat=False)
    b0 = h.vec('b', 3)
    mut_check(h, 'Mahony(b0=b).updateIMU', lambda bb, qq, gg, aa: flt.Mahony(b0=bb).updateIMU(qq, gg, aa), [b0, h.arr(list(q)), g, a], repeat=False)


@harness('C19/filters.repeatable', tiers=('thorough',), allowed_exc=(ValueError,), functions=[FF + 'aqua:AQUA.updateIMU', FF + 'aqua:AQUA.updateMARG',
                                                                           FF + 'aqua:AQUA.estimate', FF + 'aqua:adaptive_gain',
                                                                           FF + 'madgwick:Madgwick.updateIMU'], max_paths=24)
def repeatable(h):
    """filters without a legitimate carried state: the same instance called twice with the same (state, sample) arguments
    returns the same result (no hidden state between calls) and leaves the arguments alone"""
    h.definedness = 'assume'
    q = h.unit_quat('q')
    g = _vecnz(h, 'g', 3)
    a = _vecnz(h, 'a', 3)
    m = _vecnz(h, 'm', 3)
    for adaptive in (False, True):
        f = flt.AQUA(adaptive=adaptive)
        mut_check(h, f'AQUA(adaptive={adaptive}).updateIMU', lambda *x: f.updateIMU(*x), [q, g, a])
        mut_check(h, f'AQUA(adaptive={adaptive}).estimate', lambda *x: f.estimate(*x), [a, m])
    f2 = flt.Madgwick()
    mut_check(h, 'Madgwick.updateIMU (same instance)', lambda *x: f2.updateIMU(*x), [q, g, a])


@harness('C19/filters.AQUA-adaptive', allowed_exc=(ValueError,), functions=[FF + 'aqua:AQUA.updateIMU', FF + 'aqua:adaptive_gain'], max_paths=12)
def aqua_adaptive(h):
    """AQUA(adaptive=True).updateIMU called twice on one instance with the same arguments: same result, same gain (no hidden state)"""
    h.definedness = 'assume'
    q = h.unit_quat('q')
    g = _vecnz(h, 'g', 3)
    a = _vecnz(h, 'a', 3, -7, 7)      # |a| from 0.1 to 12: below, inside and above the gain-factor ramp around g = 8.4
    f = flt.AQUA(adaptive=True)
    r1 = f.updateIMU(q.copy(), g.copy(), a.copy())
    al1 = f.alpha
    r2 = f.updateIMU(q.copy(), g.copy(), a.copy())
    al2 = f.alpha
    h.out('q1', np.array(r1))
    h.check('adaptive gain after the second identical call equals the gain after the first', h.eq(al2, al1))
    h.check('second identical call returns the same attitude', _same(h, r1, r2))
