import z3, time, sys
exec(open('k1.py').read().split("w,x,y,z = z3.Reals")[0])
w,x,y,z = z3.Reals('w x y z'); a,b,c,d = z3.Reals('a b c d')
unit_q = w*w+x*x+y*y+z*z==1; unit_p = a*a+b*b+c*c+d*d==1
def run(name, cons, tmo=60000):
    s = z3.Solver(); s.set('timeout', tmo)
    for c_ in cons: s.add(c_)
    t=time.time(); r=s.check(); print(name, r, round(time.time()-t,2)); sys.stdout.flush()
    if r==z3.sat: print('   ', s.model())
    return s
# mutant: sign slip in R[0][1]
def R_mut(w,x,y,z):
    R = R_of(w,x,y,z); R[0][1] = 2*(x*y+w*z); return R
Rm = R_mut(w,x,y,z)
RRt = mm(Rm,T(Rm))
run('mut orth', [unit_q, z3.Or([RRt[i][j] != (1 if i==j else 0) for i in range(3) for j in range(3)])])
# with margin
def absz(e): return z3.If(e>=0,e,-e)
run('mut orth margin', [unit_q, z3.Or([absz(RRt[i][j] - (1 if i==j else 0))>0.01 for i in range(3) for j in range(3)])])
# shepperd roundtrip, branch i==0: trace largest
R = R_of(w,x,y,z)
r11,r12,r13=R[0]; r21,r22,r23=R[1]; r31,r32,r33=R[2]
dd = z3.Real('dd')
tr = r11+r22+r33
# branch 0 path condition: tr >= r11, r22, r33  (argmax picks first max)
pc0 = [tr>=r11, tr>=r22, tr>=r33]
sq = [dd>=0, dd*dd == 1+tr]
q0 = [dd/2, (r32-r23)/dd/2, (r13-r31)/dd/2, (r21-r12)/dd/2]
# definedness: dd != 0
run('shep b0 defined', [unit_q]+pc0+sq+[dd==0])
# result equals +-q (before normalisation): q0 == sign * (w,x,y,z)
qq=(w,x,y,z)
neq_pos = z3.Or([q0[i]!=qq[i] for i in range(4)])
neq_neg = z3.Or([q0[i]!=-qq[i] for i in range(4)])
run('shep b0 roundtrip', [unit_q]+pc0+sq+[dd!=0, neq_pos, neq_neg])
# branch 1
pc1 = [r11>tr, r11>=r22, r11>=r33]
sq1 = [dd>=0, dd*dd == 1+r11-r22-r33]
q1 = [(r32-r23)/dd/2, dd/2, (r12+r21)/dd/2, (r31+r13)/dd/2]
run('shep b1 defined', [unit_q]+pc1+sq1+[dd==0])
run('shep b1 roundtrip', [unit_q]+pc1+sq1+[dd!=0, z3.Or([q1[i]!=qq[i] for i in range(4)]), z3.Or([q1[i]!=-qq[i] for i in range(4)])])
