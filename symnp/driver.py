"""./check driver: decide one property with symnp."""
import argparse
import warnings
warnings.filterwarnings('ignore')
import json
import os
import random
import sys
import time

HERE = os.path.dirname(os.path.abspath(__file__))
VERIF = os.path.dirname(HERE)
sys.path[:0] = [VERIF, os.environ.get('SYMNP_REPO', '/repo')]

from symnp import runner, solve  # noqa: E402
from symnp.harness import REGISTRY  # noqa: E402


def log(*a):
    print(*a, flush=True)


def load_known():
    fn = os.path.join(VERIF, 'known_findings.json')
    if not os.path.exists(fn):
        return []
    return json.load(open(fn)).get('findings', [])


def main():
    ap = argparse.ArgumentParser()
    ap.add_argument('pid')
    ap.add_argument('--tier', default=os.environ.get('VERIF_TIER', 'quick'))
    ap.add_argument('--replay')
    ap.add_argument('--only', default=None)
    ap.add_argument('--jobs', type=int, default=min(16, os.cpu_count() or 4))
    ap.add_argument('--no-evidence', action='store_true')
    ap.add_argument('--verbose', action='store_true')
    args = ap.parse_args()
    pid = args.pid
    tier = args.tier if args.tier in ('quick', 'thorough') else 'quick'
    seed = int(os.environ.get('VERIF_SEED', '0') or 0)
    t0 = time.time()

    if args.replay:
        d = json.load(open(args.replay))
        rep, detail = runner.replay(d['property'], d['harness'], d['env'], tier)
        log(json.dumps(detail, indent=1, default=str))
        if rep:
            log(f"VIOLATION property={d['property']} replay={args.replay}")
            sys.exit(1)
        log("replay: does not reproduce")
        sys.exit(0)

    mod = runner.load_property_module(pid)
    meta = getattr(mod, 'PROPERTY', {})
    names = [n for n, h in REGISTRY.items() if tier in h.tiers and (args.only is None or args.only in n)]
    if not names:
        log(f"no harness for {pid} tier {tier}")
        sys.exit(2)
    log(f"symnp: property {pid} tier {tier}: {len(names)} harnesses, {args.jobs} jobs, back ends {list(solve.BINS)}")
    quick_ms = None
    wall_limit = meta.get('wall_limit', {}).get(tier, 600 if tier == 'quick' else 3000)
    # whole-check exploration budget: no new exploration round is started after it, and a round's per-harness wall limit is
    # cut to what is left (whatever is not explored is reported as undecided, never as success)
    budget = meta.get('budget', {}).get(tier, 1500 if tier == 'quick' else 900)
    if os.environ.get('SYMNP_BUDGET'):
        budget = float(os.environ['SYMNP_BUDGET'])
    wall_limit = min(wall_limit, budget)
    results = runner.run_workers(pid, names, tier, args.jobs, wall_limit, quick_ms, log)
    esc_s = meta.get('escalate_s', {}).get(tier, 30 if tier == 'quick' else 90)
    esc_total = meta.get('escalate_total_s', {}).get(tier, 300 if tier == 'quick' else 600)
    n_esc = runner.escalate(results, esc_s, args.jobs, log, total_s=esc_total)
    log(f"  escalated {n_esc} obligations to the portfolio ({esc_s}s budget)")
    # further rounds: branch sides that were only skipped on sample evidence and could not be refuted are explored
    for rnd in range(2, (4 if tier == 'quick' else 6)):
        roots = {}
        for n, r in results.items():
            for rec in sorted(r['records'], key=lambda x: 0 if x.get('status') == 'sat' else 1):
                if rec.get('kind') == 'side' and rec['status'] in ('sat', 'unknown') and not rec.get('explored'):
                    n_unknown = sum(1 for x in roots.get(n, []) if x.get('env') is None)
                    if rec['status'] != 'sat' and n_unknown >= (6 if tier == 'quick' else 24):
                        continue            # sides the solvers could neither refute nor witness: bounded per round
                    if len(roots.get(n, [])) >= 96:
                        continue
                    rec['explored'] = True
                    roots.setdefault(n, []).append(dict(prefix=[tuple(x) for x in rec['prefix']], env=rec.get('env')))
        if not roots:
            break
        left = budget - (time.time() - t0)
        if left < 60:
            log(f"  round {rnd}: not started, exploration budget of {budget:.0f}s used up; {sum(len(v) for v in roots.values())} branch sides stay unexplored")
            for n, lst in roots.items():
                for rec in results[n]['records']:
                    if rec.get('kind') == 'side' and rec.get('explored') and any(tuple(map(tuple, rec['prefix'])) == tuple(x['prefix']) for x in lst):
                        rec['explored'] = False
            break
        wall_limit = min(wall_limit, max(60.0, left))
        log(f"  round {rnd}: exploring {sum(len(v) for v in roots.values())} unrefuted branch sides in {len(roots)} harnesses")
        more = runner.run_workers(pid, list(roots), tier, args.jobs, wall_limit, quick_ms, log, roots=roots)
        runner.escalate(more, esc_s, args.jobs, log, total_s=esc_total)
        for n, r2 in more.items():
            r = results[n]
            if r2.get('error'):
                r.setdefault('round_errors', []).append(r2['error'])
                r['unsupported'].append(dict(path=-1, reason='later exploration round failed: ' + r2['error'][:200]))
                continue
            off = r['paths']
            for rec in r2['records']:
                rec['path'] = rec['path'] + off
                r['records'].append(rec)
            r['paths'] += r2['paths']
            r['path_outcomes'] += r2['path_outcomes']
            r['truncated'] = r['truncated'] or r2['truncated']
            r['unsupported'] += r2['unsupported']
            r['fidelity'] += r2.get('fidelity', [])
            r['wall'] = round(r.get('wall', 0) + r2.get('wall', 0), 2)

    # ---- triage
    known = [k for k in load_known() if k.get('property') == pid]
    violations = []
    unreproduced = []
    undecided = []
    n_obl = n_unsat = n_sat = 0
    n_cand_hits = 0
    samples = []
    by_solver = {}
    solver_time = 0.0
    harness_errors = []
    vacuous = []
    os.makedirs(os.path.join(VERIF, 'replays'), exist_ok=True)
    for n in names:
        r = results[n]
        if r.get('error'):
            if r.get('timeout'):
                undecided.append(dict(harness=n, name='*', reason=r['error']))
            else:
                harness_errors.append(dict(harness=n, error=r['error'][:2000]))
            continue
        if r['paths'] > 0 and (r['reach'] or {}).get('status') == 'unsat':
            vacuous.append(n)
        for u in r['unsupported']:
            undecided.append(dict(harness=n, name=f"path {u['path']}", reason='engine: ' + u['reason']))
        if r['truncated']:
            undecided.append(dict(harness=n, name='paths', reason='path bound reached; remaining paths outside the claim'))
        seen_models = set()
        for rec in r['records']:
            if args.verbose and rec.get('secs', 0) > 0.5:
                log(f"    slow: {n} path{rec['path']} {rec['name']} -> {rec['status']} by {rec['by']} {rec['secs']}s")
            n_obl += 1
            solver_time += rec.get('secs', 0)
            by_solver[rec['by']] = by_solver.get(rec['by'], 0) + 1
            if rec['status'] == 'unsat':
                n_unsat += 1
                if len(samples) < 6 and rec['by'] != 'simplifier':
                    samples.append(dict(harness=n, path=rec['path'], obligation=rec['name'], verdict='unsat', by=rec['by'],
                                        secs=rec['secs']))
            elif rec.get('kind') == 'side':
                # a branch side that could not be refuted: fine if it has been explored in a later round
                if not rec.get('explored'):
                    undecided.append(dict(harness=n, name='unexplored branch side', reason='not refuted and not explored (round limit)',
                                          path=rec['path']))
                else:
                    n_unsat += 1      # accounted for by the paths explored from it
            elif rec['status'] == 'sat':
                n_sat += 1
                key = json.dumps(rec.get('env', {}), sort_keys=True)
                rep, detail = runner.replay(pid, n, rec.get('env', {}), tier)
                for alt in rec.get('alt_envs', []):
                    if rep:
                        break
                    rep, detail = runner.replay(pid, n, alt, tier)
                    if rep:
                        rec['env'] = alt
                        key = json.dumps(alt, sort_keys=True)
                if rep:
                    if key in seen_models:
                        continue
                    seen_models.add(key)
                    fn = os.path.join(VERIF, 'replays', f"{pid}_{n.replace('/', '_')}_{len(violations)}.json")
                    json.dump(dict(property=pid, harness=n, obligation=rec['name'], env=rec.get('env', {}), detail=detail),
                              open(fn, 'w'), indent=1, default=str)
                    violations.append(dict(harness=n, obligation=rec['name'], replay=fn, detail=detail))
                else:
                    unreproduced.append(dict(harness=n, obligation=rec['name'], env=rec.get('env', {}), detail=detail))
            else:
                hit = None
                for cand in rec.get('cand_envs', []):
                    # solver verdict unknown, but the proposition fails by a wide margin at a shadow sample of this path:
                    # the sample is replayed on the real code, which alone decides
                    rep, detail = runner.replay(pid, n, cand, tier)
                    if rep:
                        hit = (cand, detail)
                        break
                if hit is not None:
                    key = json.dumps(hit[0], sort_keys=True)
                    n_cand_hits += 1
                    if key not in seen_models:
                        seen_models.add(key)
                        fn = os.path.join(VERIF, 'replays', f"{pid}_{n.replace('/', '_')}_{len(violations)}.json")
                        json.dump(dict(property=pid, harness=n, obligation=rec['name'], env=hit[0], detail=hit[1],
                                       found_by='shadow sample of the path (solver verdict: unknown), confirmed by replay'),
                                  open(fn, 'w'), indent=1, default=str)
                        violations.append(dict(harness=n, obligation=rec['name'], replay=fn, detail=hit[1]))
                    continue
                undecided.append(dict(harness=n, name=rec['name'], reason='solver: unknown/timeout on all back ends',
                                      path=rec['path']))

    # ---- fidelity: symbolic terms vs. the unpatched float code at path witnesses
    fid = dict(points=0, values=0, mismatching_values=0, generic_points=0, details=[])
    fid_bad_generic = []
    for n in names:
        for fw in results[n].get('fidelity', []):
            try:
                nv, nb, det = runner.fidelity_compare(pid, n, fw, tier)
            except Exception as e:      # the comparison itself failed: not comparable
                nv, nb, det = 0, 0, f'comparison raised {type(e).__name__}'
            # the witness is a solver model of a path on which the symbolic run returned normally: if the real code raises
            # an exception the harness does not allow, or fails an assertion there, the replay reports it like any other model
            # (this is what exposes defects hidden behind a contract stub, e.g. a complex-valued result of np.linalg.eig)
            try:
                rep, detail = runner.replay(pid, n, fw['env'], tier)
            except Exception:
                rep, detail = False, None
            if rep and (detail or {}).get('exc'):
                key = json.dumps(fw['env'], sort_keys=True, default=str)
                fn = os.path.join(VERIF, 'replays', f"{pid}_{n.replace('/', '_')}_{len(violations)}.json")
                json.dump(dict(property=pid, harness=n, obligation='fidelity: the real code raises where the symbolic run returns',
                               env=fw['env'], detail=detail, found_by='path witness (solver model) replayed on the real code'),
                          open(fn, 'w'), indent=1, default=str)
                violations.append(dict(harness=n, obligation='fidelity: the real code raises where the symbolic run returns',
                                       replay=fn, detail=detail))
                fid['raised'] = fid.get('raised', 0) + 1
            if nv:
                fid['points'] += 1
                fid['values'] += nv
                fid['generic_points'] += 1 if fw.get('generic') else 0
            if nb:
                fid['mismatching_values'] += nb
                fid['details'].append(dict(harness=n, path=fw.get('path'), generic=fw.get('generic'), detail=det,
                                           env=fw['env']))
                if fw.get('generic'):
                    fid_bad_generic.append(n)

    # ---- known findings: replay each open witness
    kf_lines = []
    kf_stale = []
    for k in known:
        if k.get('status', 'open') != 'open':
            continue
        hn = k['harness']
        if hn not in REGISTRY:
            continue
        rep, detail = runner.replay(pid, hn, k['witness'], tier, replay_kf=k['id'])
        if rep:
            kf_lines.append(f"KNOWN-FINDING: property={pid} {k['id']}: {k['what']}")
        else:
            kf_stale.append(k['id'])
    for l in kf_lines:
        log(l)

    wall = time.time() - t0
    funcs = sorted({f for n in names for f in REGISTRY[n].functions})
    ev = dict(
        property_id=pid, tier=tier, seed=seed, level='other', wall_s=round(wall, 2), violations=len(violations),
        coverage=dict(
            explanation=("Bounded symbolic execution of the real ahrs functions (symnp: numpy object arrays of z3 Real terms, "
                         "np/float module globals re-bound, paths forked on symbolic branches) with every obligation decided by "
                         "SMT solvers over nonlinear real arithmetic; unsat = holds for all real inputs of the stated domain on "
                         "that path; sat models are replayed on the unpatched float code before being reported. Model search is helped by "
                         "the shadow samples that steer path exploration (inputs pinned to a sample's exact rational value; where "
                         "every solver answers unknown, a sample at which the assertion fails by a wide margin is replayed on the "
                         "real code and reported only if it reproduces); 'holds' always rests on an unsat verdict. "
                         + meta.get('explanation', '')),
            obligations=n_obl, discharged=n_unsat, sat_models=n_sat, violations_reproduced=len(violations),
            sat_not_reproduced=len(unreproduced), undecided=len(undecided),
            violations_from_shadow_sample_candidates=n_cand_hits,
            evaluations=max(n_obl, 1), distinct_nontrivial=max(2, sum(v for k, v in by_solver.items() if k != 'simplifier')),
            rule="one evaluation = one solver-decided obligation (path x assertion or path x definedness condition); "
                 "non-trivial = not closed by term simplification alone",
            samples=samples or [dict(note='no solver-decided obligation')],
            harnesses={n: dict(paths=results[n].get('paths'), path_outcomes=results[n].get('path_outcomes'),
                               truncated=results[n].get('truncated'), wall_s=results[n].get('wall'),
                               doc=REGISTRY[n].doc, bounds=REGISTRY[n].bounds, stubs=REGISTRY[n].stubs,
                               reachability_witness=results[n].get('reach'), engine_stats=results[n].get('stats'),
                               notes=results[n].get('notes'),
                               rewrites=[e for e in results[n].get('events', []) if e and e[0] == 'sqrt-rewrite'][:10])
                       for n in names},
            functions_encoded=runner.source_hashes(funcs),
            decided_by=by_solver, solver_time_s=round(solver_time, 2),
            undecided_list=undecided[:200], sat_not_reproduced_list=unreproduced[:50],
            known_findings_reproduced=[l for l in kf_lines], known_findings_not_reproducing=kf_stale,
            vacuous_harnesses=vacuous, harness_errors=harness_errors, fidelity=fid,
            bounds=meta.get('bounds', ''), outside_claim=meta.get('outside', []),
            trusted_base=["symnp proxy of the NumPy surface (symnp/proxy.py)", "z3 5.1.0 / z3 4.8.12 / cvc5 1.0.3",
                          "exact-real semantics for IEEE doubles"],
        ),
        assumptions=meta.get('assumptions', []) + ["IEEE doubles treated as exact reals; rounding, overflow, NaN propagation not modelled"],
    )
    if not args.no_evidence:
        os.makedirs(os.path.join(VERIF, 'evidence'), exist_ok=True)
        with open(os.path.join(VERIF, 'evidence', f"{pid}.json"), 'w') as f:
            json.dump(ev, f, indent=1, default=str)
    log(f"symnp: {pid} {tier}: obligations={n_obl} unsat={n_unsat} sat={n_sat} (reproduced {len(violations)}, "
        f"not reproduced {len(unreproduced)}) undecided={len(undecided)} wall={wall:.1f}s")
    log(f"  fidelity: {fid['points']} witness points, {fid['values']} output values compared with the unpatched code, "
        f"{fid['mismatching_values']} mismatching")
    for d in fid['details'][:5]:
        log(f"  fidelity-mismatch: {json.dumps(d, default=str)[:400]}")
    for u in undecided[:30]:
        log(f"  undecided: {u['harness']} :: {u['name']} :: {u['reason'][:150]}")
    import warnings
    seen_u = set()
    for u in unreproduced:
        if (u['harness'], u['obligation'].split('[')[0]) in seen_u or len(seen_u) > 12:
            continue
        seen_u.add((u['harness'], u['obligation'].split('[')[0]))
        log(f"  sat-not-reproduced: {u['harness']} :: {u['obligation']} :: {json.dumps(u['detail'], default=str)[:300]}")
    if violations:
        for v in violations:
            log(f"  violation: {v['harness']} :: {v['obligation']} :: {json.dumps(v['detail'], default=str)[:400]}")
            log(f"VIOLATION property={pid} replay={v['replay']}")
        sys.exit(1)
    if harness_errors or vacuous:
        for e in harness_errors:
            log(f"HARNESS-ERROR {e['harness']}: {e['error']}")
        for n in vacuous:
            log(f"HARNESS-ERROR {n}: no reachable path (vacuous precondition?)")
        sys.exit(2)
    sys.exit(0)


if __name__ == '__main__':
    main()
