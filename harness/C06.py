"""C06 - batch run equals sample-by-sample streaming; filters deterministic and isolated."""
import numpy as np
from ahrs import filters as flt
from symnp.harness import harness

PROPERTY = dict(
    id='C06',
    explanation="Differential, N = 3 symbolic samples: (i) the constructor over the history gives Q_batch; (ii) a fresh instance "
                "built without data is fed the same samples one at a time from Q_batch[0] through its update method(s) giving "
                "Q_stream; (iii) the batch is run a second time on a new instance; (iv) a second instance is fed other symbolic "
                "data between two steps of the first. Obligations: Q_batch[t] == Q_stream[t] for every t (as real-algebra "
                "equalities decided by the solver; no external oracle), run (iii) == run (i), and (iv) leaves the first "
                "instance's outputs unchanged. The carried state (bias, covariance) is compared as well, so the per-step "
                "equality is inductive. LAPACK contracts are uninterpreted functions (sound for equalities). Further harnesses: a "
                "caller-owned initial bias shared by Mahony instances (left alone, runs independent); OLEQ under the same "
                "global seed twice (RNG stream contract); AngularRate with series orders 0 / 2; the default "
                "gain of a data-less Madgwick against its batch constructors.",
    bounds="N = 3 samples (2 update steps); paths <= 64 per harness",
    outside=["histories longer than 3 (per-step equality + carried state compared: inductive)",
             "OLEQ / ROLEQ random start vector: the RNG is a contract (same seed => same symbols)"],
    wall_limit=dict(quick=400, thorough=1500),
)
FF = 'ahrs.filters.'
N = 3


def _hist(h, names=('g', 'a', 'm'), lo=-3, hi=3):
    out = []
    for nm in names:
        rows = []
        for i in range(N):
            v = h.vec(f'{nm}{i}', 3, lo, hi)
            h.assume(h.ge(v[0] * v[0] + v[1] * v[1] + v[2] * v[2], 0.01))
            rows.append(v)
        out.append(np.array(rows))
    return out


def _cmp(h, tag, A, B):
    A, B = np.array(A), np.array(B)
    h.check(f'{tag}: shape', h.shape_is(A, B.shape))
    for t in range(len(A)):
        h.check(f'{tag}: sample {t}', h.eq(A[t], B[t]))


def _mk(name, ctor, stream, tiers=('quick', 'thorough'), sensors=('g', 'a'), functions=(), state=None, max_paths=48):
    @harness(f'C06/{name}', tiers=tiers, functions=list(functions), max_paths=max_paths, bounds=f'N={N}')
    def hf(h, ctor=ctor, stream=stream, sensors=sensors, state=state):
        h.definedness = 'assume'          # definedness is C03's subject; here: equality of the two runs
        data = _hist(h, sensors)
        q0 = h.unit_quat('q')
        f1 = ctor(q0.copy(), *[d.copy() for d in data])
        Q1 = np.array(f1.Q)
        h.out('Q_batch', Q1)
        h.check('one attitude per sample', h.shape_is(Q1, (N, 4)))
        # streaming from the batch's own first attitude
        f2 = ctor(q0.copy())
        q = Q1[0].copy()
        Qs = [q]
        other = [h.vec(f'o{k}', 3, -3, 3) for k in range(len(sensors))]
        f3 = ctor(q0.copy())
        for t in range(1, N):
            q = np.array(stream(f2, q.copy(), *[d[t].copy() for d in data]))
            Qs.append(q)
            if t == 1:
                # an unrelated instance works on other data between two steps of f2
                try:
                    stream(f3, q0.copy(), *[o.copy() for o in other])
                except ValueError:
                    pass
        _cmp(h, 'batch == streaming', Q1, np.array(Qs))
        if state is not None:
            for sname in state:
                h.check(f'carried state {sname} equal after both runs', h.eq(np.array(getattr(f1, sname)), np.array(getattr(f2, sname))))
        # repeat the batch on a new instance
        f4 = ctor(q0.copy(), *[d.copy() for d in data])
        _cmp(h, 'repeated batch run', np.array(f4.Q), Q1)
    hf.__doc__ = f"{name}: constructor over N={N} samples == update() sample by sample; repeatable; isolated from another instance"
    return hf


_mk('Madgwick.IMU', lambda q0, *d: flt.Madgwick(*d, q0=q0) if d else flt.Madgwick(q0=q0),
    lambda f, q, g, a: f.updateIMU(q, g, a), tiers=('thorough',),
    functions=[FF + 'madgwick:Madgwick._compute_all', FF + 'madgwick:Madgwick.updateIMU'])
_mk('Mahony.IMU', lambda q0, *d: flt.Mahony(*d, q0=q0) if d else flt.Mahony(q0=q0),
    lambda f, q, g, a: f.updateIMU(q, g, a), state=('b',),
    functions=[FF + 'mahony:Mahony._compute_all', FF + 'mahony:Mahony.updateIMU'])
_mk('Mahony.MARG', lambda q0, *d: flt.Mahony(*d, q0=q0) if d else flt.Mahony(q0=q0),
    lambda f, q, g, a, m: f.updateMARG(q, g, a, m), sensors=('g', 'a', 'm'), state=('b',), tiers=('thorough',),
    functions=[FF + 'mahony:Mahony._compute_all', FF + 'mahony:Mahony.updateMARG'])
# (the data-less instance is given the MARG gain explicitly: with its defaults it takes the IMU gain, KF-C06-madgwick-marg-gain,
# which is checked on its own in C06/Madgwick.default-gain)
_mk('Madgwick.MARG', lambda q0, *d: flt.Madgwick(*d, q0=q0) if d else flt.Madgwick(q0=q0, gain=0.041),
    lambda f, q, g, a, m: f.updateMARG(q, g, a, m), sensors=('g', 'a', 'm'), tiers=('thorough',),
    functions=[FF + 'madgwick:Madgwick._compute_all', FF + 'madgwick:Madgwick.updateMARG'])
_mk('AngularRate', lambda q0, *d: flt.AngularRate(*d, q0=q0) if d else flt.AngularRate(q0=q0),
    lambda f, q, g: f.update(q, g), sensors=('g',),
    functions=[FF + 'angular:AngularRate._compute_all', FF + 'angular:AngularRate.update'])
_mk('AQUA.IMU', lambda q0, *d: flt.AQUA(acc=d[1], gyr=d[0], q0=q0) if d else flt.AQUA(q0=q0),
    lambda f, q, g, a: f.updateIMU(q, g, a), tiers=('thorough',),
    functions=[FF + 'aqua:AQUA._compute_all', FF + 'aqua:AQUA.updateIMU'])
_mk('EKF.IMU', lambda q0, *d: flt.EKF(*d, q0=q0, magnetic_ref=60.0) if d else flt.EKF(q0=q0, magnetic_ref=60.0),
    lambda f, q, g, a: f.update(q, g, a), state=('P',), tiers=('thorough',),
    functions=[FF + 'ekf:EKF._compute_all', FF + 'ekf:EKF.update'])
_mk('ROLEQ', lambda q0, *d: flt.ROLEQ(*d, q0=q0, magnetic_ref=np.array([0.6, 0.0, 0.8])) if d else flt.ROLEQ(q0=q0, magnetic_ref=np.array([0.6, 0.0, 0.8])),
    lambda f, q, g, a, m: f.update(q, g, a, m), sensors=('g', 'a', 'm'),
    functions=[FF + 'roleq:ROLEQ._compute_all', FF + 'roleq:ROLEQ.update'])


@harness('C06/EKF.MARG.streaming', functions=[FF + 'ekf:EKF.update', FF + 'ekf:EKF.h', FF + 'ekf:EKF.dhdq'], max_paths=16,
         bounds='one streaming step')
def ekf_marg_stream(h):
    """an EKF built without data and fed (gyr, acc, mag) through update() takes the step its MARG constructor takes"""
    h.definedness = 'assume'
    q = h.unit_quat('q')
    g, a, m = h.vec('g', 3), h.vec('a', 3), h.vec('m', 3)
    h.assume(h.ge(a @ a, 0.01) & h.ge(m @ m, 0.01))
    f = flt.EKF(magnetic_ref=60.0)
    # KF-C06-ekf-streaming-mag: the measurement model is keyed on the constructor's `mag`, so this raises a shape error
    kf = h.kf('KF-C06-ekf-streaming-mag', h.true())
    raised, out = h.raises(lambda: f.update(q.copy(), g.copy(), a.copy(), m.copy()), (ValueError,))
    h.check('EKF().update(q, gyr, acc, mag) works on an instance built without data (outside KF-C06-ekf-streaming-mag)',
            kf | (h.false() if raised else h.true()))


@harness('C06/FLAE.weights', functions=[FF + 'flae:FLAE.__init__'], max_paths=8)
def flae_weights(h):
    """FLAE leaves the caller's weights alone and two instances built from the same weights agree"""
    w = h.arr([h.real('w0', 0.1, 2.0), h.real('w1', 0.1, 2.0)])
    w0 = np.array(w, copy=True)
    f1 = flt.FLAE(weights=w)
    f2 = flt.FLAE(weights=w)
    h.check('weights unchanged', h.eq(w, w0))
    h.check('both instances use the same normalised weights', h.eq(f1.a, f2.a))


@harness('C06/OLEQ.seeded', functions=[FF + 'oleq:OLEQ.estimate', FF + 'oleq:OLEQ.WW'], max_paths=6, max_decisions=80,
         bounds='one sample at a concrete rational attitude, weights (1, 0) (the iteration matrix is a projector, the power iteration stops after 2 steps); the 4 start-vector draws are symbolic',
         stubs=['np.random: RNG contract (global stream restarts at np.random.seed; unseeded generators are unrelated streams)'])
def oleq_seeded(h):
    """OLEQ.estimate under the same NumPy global seed twice: the same estimate (the start vector is the only randomness)"""
    h.definedness = 'assume'
    from fractions import Fraction as Fr
    acc = np.array([Fr(2, 7), Fr(-3, 7), Fr(6, 7)], dtype=object) if h.sym else np.array([2 / 7, -3 / 7, 6 / 7])
    mag = np.array([Fr(4, 9), Fr(1, 9), Fr(8, 9)], dtype=object) if h.sym else np.array([4 / 9, 1 / 9, 8 / 9])
    s1, s2 = h.real('s1', 0.5, 2.0), h.real('s2', 0.5, 2.0)
    h.pool(s1, s2)
    acc, mag = s1 * acc, s2 * mag
    f = flt.OLEQ(weights=np.array([1.0, 0.0]), magnetic_ref=np.array([0.6, 0.0, 0.8]))    # R is a projector: 2 iterations
    import ahrs.filters.oleq as om          # the module's own np: the RNG contract in symbolic mode, NumPy's global RNG otherwise
    om.np.random.seed(11)
    q1 = f.estimate(acc.copy(), mag.copy())
    om.np.random.seed(11)
    q2 = f.estimate(acc.copy(), mag.copy())
    h.out('q1', np.array(q1))
    h.check('same global seed, same inputs: same estimate', h.eq(np.array(q1), np.array(q2)))


_mk('AngularRate.series2', lambda q0, *d: flt.AngularRate(*d, q0=q0, method='series', order=2) if d else flt.AngularRate(q0=q0, method='series', order=2),
    lambda f, q, g: f.update(q, g, method=f.method, order=f.order), sensors=('g',),
    functions=[FF + 'angular:AngularRate._compute_all', FF + 'angular:AngularRate.update'])
_mk('AngularRate.series0', lambda q0, *d: flt.AngularRate(*d, q0=q0, method='series', order=0) if d else flt.AngularRate(q0=q0, method='series', order=0),
    lambda f, q, g: f.update(q, g, method=f.method, order=f.order), sensors=('g',), tiers=('thorough',),
    functions=[FF + 'angular:AngularRate._compute_all', FF + 'angular:AngularRate.update'])



@harness('C06/Mahony.b0', functions=[FF + 'mahony:Mahony.__init__', FF + 'mahony:Mahony._compute_all', FF + 'mahony:Mahony.updateIMU'],
         max_paths=32, bounds=f'N={N}')
def mahony_b0(h):
    """a caller-owned initial bias b0 shared by two instances: the caller's array is left alone, the second run equals the first"""
    h.definedness = 'assume'
    g, a = _hist(h, ('g', 'a'))
    q0 = h.unit_quat('q')
    b0 = h.vec('b', 3, -0.1, 0.1)
    before = np.array(b0, copy=True)
    f1 = flt.Mahony(g.copy(), a.copy(), q0=q0.copy(), b0=b0)
    Q1 = np.array(f1.Q)
    h.out('Q_batch', Q1)
    h.check("caller's b0 unchanged by a batch run", h.eq(b0, before))
    f2 = flt.Mahony(g.copy(), a.copy(), q0=q0.copy(), b0=b0)
    _cmp(h, 'second instance built from the same b0', np.array(f2.Q), Q1)
    # streaming, interleaved with another instance built from the same b0
    fa, fb = flt.Mahony(q0=q0.copy(), b0=b0), flt.Mahony(q0=q0.copy(), b0=b0)
    q = Q1[0].copy()
    Qs = [q]
    o = h.vec('o', 3, -3, 3)
    for t in range(1, N):
        q = np.array(fa.updateIMU(q.copy(), g[t].copy(), a[t].copy()))
        Qs.append(q)
        fb.updateIMU(q0.copy(), o.copy(), a[t].copy())
    _cmp(h, 'streaming (interleaved with another instance) == batch', np.array(Qs), Q1)
    h.check("caller's b0 unchanged by streaming", h.eq(b0, before))


@harness('C06/Madgwick.default-gain', functions=[FF + 'madgwick:Madgwick._set_gain'], max_paths=4, bounds='default gains; concrete N=2 history')
def madgwick_default_gain(h):
    """with default settings, the data-less Madgwick instance streams MARG samples with the gain its MARG constructor uses"""
    h.definedness = 'assume'
    x = h.real('dummy', 0.0, 1.0)
    g = np.array([[0.1, -0.2, 0.3]] * 2)
    a = np.array([[0.3, -0.2, 2.0]] * 2)
    m = np.array([[1.0, 0.2, 1.5]] * 2)
    batch = flt.Madgwick(g.copy(), a.copy(), m.copy())
    stream = flt.Madgwick()
    kf = h.kf('KF-C06-madgwick-marg-gain', h.true())
    h.check('Madgwick() streams MARG samples with the gain Madgwick(gyr, acc, mag) uses (outside KF-C06-madgwick-marg-gain)',
            kf | h.eq(stream.gain + 0.0 * x, batch.gain))
    batch_imu = flt.Madgwick(g.copy(), a.copy())
    h.check('Madgwick() streams IMU samples with the gain Madgwick(gyr, acc) uses', h.eq(stream.gain + 0.0 * x, batch_imu.gain))
