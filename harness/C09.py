"""C09 - quaternion arithmetic obeys the Hamilton algebra laws; storage order is transparent."""
import numpy as np
from ahrs import Quaternion
from ahrs.common import orientation as ori
from symnp.harness import harness
from reference import rot

PROPERTY = dict(
    id='C09',
    explanation="Domain: p, q, r in R^4 arbitrary (versor=False, |.|^2 >= 0.01) and unit; both storage orders. Laws are "
                "polynomial identities decided on the terms the real product/conjugate/inverse/mult_L/mult_R code builds.",
    bounds="straight-line code; no bound",
    outside=["rounding"],
)

FQ = ['ahrs.common.quaternion:Quaternion.product', 'ahrs.common.quaternion:Quaternion.__mul__',
      'ahrs.common.quaternion:Quaternion.__matmul__', 'ahrs.common.quaternion:Quaternion.conjugate',
      'ahrs.common.quaternion:Quaternion.inverse', 'ahrs.common.quaternion:Quaternion.mult_L',
      'ahrs.common.quaternion:Quaternion.mult_R', 'ahrs.common.quaternion:Quaternion.w',
      'ahrs.common.quaternion:Quaternion.x', 'ahrs.common.quaternion:Quaternion.y', 'ahrs.common.quaternion:Quaternion.z',
      'ahrs.common.quaternion:Quaternion.v', 'ahrs.common.quaternion:Quaternion.is_versor']


def _nz(h, name):
    q = h.vec(name, 4, -3, 3)
    n2 = q[0] * q[0] + q[1] * q[1] + q[2] * q[2] + q[3] * q[3]
    h.assume(h.ge(n2, 0.01))
    return q, n2


def Qn(q):
    return Quaternion(q.copy(), versor=False)


@harness('C09/assoc-norm-conj', functions=FQ)
def assoc(h):
    """non-normalised p, q, r: associativity, |pq|^2=|p|^2|q|^2, (pq)* = q* p*, entry points agree"""
    p, np2 = _nz(h, 'p')
    q, nq2 = _nz(h, 'q')
    r, _ = _nz(h, 'r')
    P_, Q_, R_ = Qn(p), Qn(q), Qn(r)
    pq = np.array(P_ * Q_)
    h.out('pq', pq)
    h.check('product == reference Hamilton product', h.eq(pq, rot.qmul(p, q)))
    lhs = np.array(Qn(pq) * R_)
    rhs = np.array(P_ * np.array(Q_ * R_))
    h.check('(pq)r == p(qr)', h.eq(lhs, rhs))
    n = pq[0] * pq[0] + pq[1] * pq[1] + pq[2] * pq[2] + pq[3] * pq[3]
    h.check('|pq|^2 == |p|^2 |q|^2', h.eq(n, np2 * nq2))
    c_pq = np.array(Qn(pq).conjugate)
    qc_pc = np.array(Qn(np.array(Q_.conjugate)) * np.array(P_.conjugate))
    h.check('(pq)* == q* p*', h.eq(c_pq, qc_pc))
    h.check('conj == conjugate', h.eq(np.array(P_.conj), rot.qconj(p)))
    for tag, val in (('@', P_ @ Q_), ('product()', P_.product(Q_)), ('q_prod', ori.q_prod(p.copy(), q.copy())),
                     ('product(ndarray)', P_.product(q.copy()))):
        h.check(f'{tag} agrees with *', h.eq(np.array(val), pq))
    h.check('mult_L(p) q == pq', h.eq(P_.mult_L() @ q, pq))
    h.check('mult_R(q) p == pq', h.eq(Q_.mult_R() @ p, pq))


@harness('C09/unit-laws', functions=FQ + ['ahrs.common.orientation:q_mult_L', 'ahrs.common.orientation:q_mult_R',
                                          'ahrs.common.orientation:q_conj'])
def unit_laws(h):
    """unit p, q (default versor=True constructor): inverse, product matrices, free functions"""
    p = h.unit_quat('p')
    q = h.unit_quat('q')
    P_, Q_ = Quaternion(p.copy()), Quaternion(q.copy())
    one = np.array([1.0, 0.0, 0.0, 0.0])
    inv = np.array(P_.inverse)
    h.out('inverse', inv)
    h.check('p^-1 p == 1', h.eq(np.array(Quaternion(inv, versor=False) * P_), one))
    h.check('p p^-1 == 1', h.eq(np.array(P_ * inv), one))
    h.check('inv == inverse', h.eq(np.array(P_.inv), inv))
    pq = rot.qmul(p, q)
    h.check('q_mult_L(p) q == pq', h.eq(ori.q_mult_L(p.copy()) @ q, pq))
    h.check('q_mult_R(q) p == pq', h.eq(ori.q_mult_R(q.copy()) @ p, pq))
    h.check('q_conj', h.eq(ori.q_conj(p.copy()), rot.qconj(p)))
    h.check('|p*q| == 1', h.is_unit(np.array(P_ * Q_)))
    h.check('components', h.eq(np.array([P_.w, P_.x, P_.y, P_.z]), p) & h.eq(np.array(P_.v), p[1:]))


@harness('C09/inverse.nonversor', functions=FQ)
def inverse_nonversor(h):
    """non-normalised q (versor=False): q^-1 q = q q^-1 = 1"""
    q, n2 = _nz(h, 'q')
    Q_ = Qn(q)
    inv = np.array(Q_.inverse)
    h.out('inverse', inv)
    one = np.array([1.0, 0.0, 0.0, 0.0])
    left = np.array(Quaternion(inv, versor=False) * Q_)
    right = np.array(Q_ * inv)
    # known finding KF-C09-inverse: inverse divides by |q| instead of |q|^2 whenever |q| != 1
    in_kf = h.kf('KF-C09-inverse', h.ne(n2, 1.0))
    h.check('q^-1 q == 1 (outside KF-C09-inverse region)', in_kf | h.eq(left, one))
    h.check('q q^-1 == 1 (outside KF-C09-inverse region)', in_kf | h.eq(right, one))
    # inside the known region the result must still be a positive real multiple of the identity, the same on both
    # sides, with the conjugate's direction (anything else is a different violation)
    h.check('q^-1 q is real, positive', h.eq(left[1:], np.array([0.0, 0.0, 0.0])) & h.gt(left[0], 0.0))
    h.check('q q^-1 == q^-1 q', h.eq(left, right))
    h.check('known-defect characterisation: (q^-1 q)^2 in {|q|^2, |q|^4}',
            h.eq(left[0] * left[0], n2) | h.eq(left[0] * left[0], n2 * n2))


@harness('C09/storage-order', functions=FQ + ['ahrs.common.quaternion:Quaternion.to_DCM', 'ahrs.common.quaternion:Quaternion.__new__'])
def storage_order(h):
    """scalar-last storage exposes the same w, x, y, z, v, conjugate, product and matrix as scalar-first"""
    q = h.unit_quat('q')
    r = h.unit_quat('r')
    QH = Quaternion(q.copy())
    qs = np.array([q[1], q[2], q[3], q[0]])
    QS = Quaternion(qs, order='S')
    h.check('w,x,y,z', h.eq(np.array([QS.w, QS.x, QS.y, QS.z]), np.array([QH.w, QH.x, QH.y, QH.z])))
    h.check('v', h.eq(np.array(QS.v), np.array(QH.v)))
    cS = Quaternion(np.array(QS.conjugate), order='S', versor=False)
    cH = Quaternion(np.array(QH.conjugate), versor=False)
    h.check('conjugate', h.eq(np.array([cS.w, cS.x, cS.y, cS.z]), np.array([cH.w, cH.x, cH.y, cH.z])))
    h.check('product with a scalar-first array', h.eq(np.array(QS.product(r.copy())), np.array(QH.product(r.copy()))))
    h.check('operator * with a scalar-first array', h.eq(np.array(QS * r.copy()), np.array(QH * r.copy())))
    h.check('to_DCM', h.eq(QS.to_DCM(), QH.to_DCM()))
    h.check('mult_L', h.eq(QS.mult_L(), QH.mult_L()))
    h.check('mult_R', h.eq(QS.mult_R(), QH.mult_R()))
    h.check('rotate', h.eq(QS.rotate(r[1:].copy()), QH.rotate(r[1:].copy())))
    iS = Quaternion(np.array(QS.inverse), order='S', versor=False)
    h.check('inverse', h.eq(np.array([iS.w, iS.x, iS.y, iS.z]), np.array(QH.inverse)))
