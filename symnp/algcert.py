"""Algebraic certificates for equality obligations.

Most obligations here are of the form   constraints |= A == B   where A, B are rational functions of the symbols and the
constraints contain defining equations (unit circles c^2+s^2=1, unit spheres, r^2 = E for square roots, ...). nlsat is
slow on these as soon as there are ~10 symbols. This module *searches* for multipliers m_k such that

        numer(A - B) == sum_k m_k * g_k            (g_k == 0 are equations among the constraints)

by rewriting with the equations as reduction rules (a Groebner-style normal form, untrusted), and then lets the SMT solver
*decide* that polynomial identity, which has no hypotheses and is discharged by polynomial normalisation in milliseconds.
The identity, the equations g_k = 0 being among the constraints and the denominators being non-zero (definedness
assumptions of the path) imply the obligation. If no certificate is found the obligation goes to the ordinary solver path.
"""
import time
from fractions import Fraction as F

import z3

MAX_TERMS = 60000


class Fail(Exception):
    pass


# ---- sparse polynomials: {monomial: coeff}, monomial = tuple(sorted((var, exp))) ------------------------------
def p_const(c):
    return {(): F(c)} if c != 0 else {}


def p_var(v):
    return {((v, 1),): F(1)}


def p_add(a, b, sb=1):
    r = dict(a)
    for m, c in b.items():
        v = r.get(m, 0) + sb * c
        if v == 0:
            r.pop(m, None)
        else:
            r[m] = v
    return r


def m_mul(m1, m2):
    if not m1:
        return m2
    if not m2:
        return m1
    d = dict(m1)
    for v, e in m2:
        d[v] = d.get(v, 0) + e
    return tuple(sorted(d.items()))


DEADLINE = [None]


def p_mul(a, b):
    if not a or not b:
        return {}
    if len(a) * len(b) > 400_000:
        raise Fail('product too large')
    if DEADLINE[0] is not None and len(a) * len(b) > 64 and time.time() > DEADLINE[0]:
        raise Fail('time budget')
    r = {}
    for m1, c1 in a.items():
        for m2, c2 in b.items():
            m = m_mul(m1, m2)
            v = r.get(m, 0) + c1 * c2
            if v == 0:
                r.pop(m, None)
            else:
                r[m] = v
    if len(r) > MAX_TERMS:
        raise Fail('polynomial too large')
    return r


def p_scale(a, k):
    return {m: c * k for m, c in a.items()} if k != 0 else {}


def p_pow(a, n):
    r = p_const(1)
    for _ in range(n):
        r = p_mul(r, a)
    return r


class Conv:
    """z3 real term -> (numerator poly, denominator poly)"""

    _serial = [0]

    def __init__(self):
        self.cache = {}
        self.vars = {}        # name -> z3 term
        self.keep = []
        Conv._serial[0] += 1
        self.serial = Conv._serial[0]      # cache key (id() of a collected converter is reused by the next one)

    def var(self, t):
        name = t.sexpr()
        self.vars[name] = t
        return name

    def rf(self, t):
        key = t.get_id()
        hit = self.cache.get(key)
        if hit is not None:
            return hit[0]
        r = self._rf(t)
        self.cache[key] = (r, t)
        return r

    def _rf(self, t):
        if z3.is_rational_value(t):
            return p_const(F(t.numerator_as_long(), t.denominator_as_long())), p_const(1)
        if z3.is_int_value(t):
            return p_const(t.as_long()), p_const(1)
        if not z3.is_app(t):
            raise Fail('not an application')
        k = t.decl().kind()
        ch = t.children()
        if k == z3.Z3_OP_UNINTERPRETED:
            return p_var(self.var(t)), p_const(1)
        if k == z3.Z3_OP_ADD:
            n, d = self.rf(ch[0])
            for c in ch[1:]:
                n2, d2 = self.rf(c)
                n, d = self._addrf(n, d, n2, d2, 1)
            return n, d
        if k == z3.Z3_OP_SUB:
            n, d = self.rf(ch[0])
            for c in ch[1:]:
                n2, d2 = self.rf(c)
                n, d = self._addrf(n, d, n2, d2, -1)
            return n, d
        if k == z3.Z3_OP_UMINUS:
            n, d = self.rf(ch[0])
            return p_scale(n, -1), d
        if k == z3.Z3_OP_MUL:
            n, d = self.rf(ch[0])
            for c in ch[1:]:
                n2, d2 = self.rf(c)
                n, d = p_mul(n, n2), (p_mul(d, d2) if (d != ONE or d2 != ONE) else ONE)
            return n, d
        if k == z3.Z3_OP_DIV:
            n, d = self.rf(ch[0])
            n2, d2 = self.rf(ch[1])
            if not n2:
                raise Fail('division by zero polynomial')
            return p_mul(n, d2), p_mul(d, n2)
        if k == z3.Z3_OP_POWER:
            e = ch[1]
            if z3.is_rational_value(e) and e.denominator_as_long() == 1 and 0 <= e.numerator_as_long() <= 12:
                n, d = self.rf(ch[0])
                ee = e.numerator_as_long()
                return p_pow(n, ee), p_pow(d, ee)
            raise Fail('power')
        if k == z3.Z3_OP_TO_REAL:
            return p_var(self.var(t)), p_const(1)
        raise Fail(f'unsupported operator {t.decl().name()}')

    @staticmethod
    def _addrf(n, d, n2, d2, s):
        if d == d2:
            return p_add(n, n2, s), d
        if d == ONE:
            return p_add(p_mul(n, d2), n2, s), d2
        if d2 == ONE:
            return p_add(n, p_mul(n2, d), s), d
        return p_add(p_mul(n, d2), p_mul(n2, d), s), p_mul(d, d2)

    def to_z3(self, p):
        if not p:
            return z3.RealVal(0)
        terms = []
        for m, c in p.items():
            t = None
            for v, e in m:
                for _ in range(e):
                    t = self.vars[v] if t is None else t * self.vars[v]
            if t is None:
                t = z3.RealVal(str(c))
            elif c != 1:
                t = z3.RealVal(str(c)) * t
            terms.append(t)
        return z3.Sum(terms) if len(terms) > 1 else terms[0]


ONE = p_const(1)


ORDER = [0]     # 0: introduced symbols first (default); 1: input symbols first (second attempt)


def _rank(v):
    """variable order: introduced symbols (roots, hypotenuses, sines/cosines, signs) are eliminated first"""
    if v.startswith('|'):
        v = v[1:-1]
    if ORDER[0] == 0:
        if '!' in v:
            return 3
        if v.startswith('s_') or v.startswith('c_'):
            return 2
        return 1
    if '!' in v:
        return 2
    if v.startswith('s_') or v.startswith('c_'):
        return 1
    return 3


def _mkey(m):
    deg = sum(e for _, e in m)
    return (max((_rank(v) for v, _ in m), default=0), deg, tuple(sorted(((_rank(v), v, e) for v, e in m), reverse=True)))


def make_rules(eqs):
    """eqs: list of polys g (g == 0). rule: leading monomial -> -(g - lt)/lc.
    Only equations whose leading monomial is a pure power v^k or a product are used; linear equations with a leading
    variable are used as substitutions as well."""
    rules = []
    for gi, g in enumerate(eqs):
        if not g:
            continue
        # prefer a pure square of the highest-ranked variable
        cands = sorted(g.keys(), key=_mkey, reverse=True)
        lm = cands[0]
        if not lm:
            continue
        lc = g[lm]
        rest = {m: -c / lc for m, c in g.items() if m != lm}
        # termination: every monomial of rest must be smaller than lm
        if any(_mkey(m) >= _mkey(lm) for m in rest):
            continue
        rules.append((lm, rest, gi, lc))
    return rules


def _divides(lm, m):
    d = dict(m)
    for v, e in lm:
        if d.get(v, 0) < e:
            return None
    q = dict(d)
    for v, e in lm:
        q[v] -= e
        if q[v] == 0:
            del q[v]
    return tuple(sorted(q.items()))


def reduce(p, rules, n_eqs, budget_s=5.0):
    """normal form of p modulo the rules; returns (nf, multipliers) with p == nf + sum mult[k]*g_k"""
    mult = [dict() for _ in range(n_eqs)]
    p = dict(p)
    t0 = time.time()
    # index rules by a variable of their leading monomial
    by_var = {}
    for r in rules:
        by_var.setdefault(r[0][0][0], []).append(r)
    done = {}
    steps = 0
    work = p
    out = {}
    while work:
        steps += 1
        if steps % 256 == 0 and time.time() - t0 > budget_s:
            raise Fail('reduction budget')
        m = max(work.keys(), key=_mkey)
        c = work.pop(m)
        applied = False
        for v, _ in m:
            for lm, rest, gi, lc in by_var.get(v, ()):
                q = _divides(lm, m)
                if q is None:
                    continue
                # m = q*lm ; lm = rest + g/lc  => c*m = c*q*rest + (c/lc)*q*g
                for m2, c2 in rest.items():
                    mm = m_mul(q, m2)
                    val = work.get(mm, 0) + c * c2
                    if val == 0:
                        work.pop(mm, None)
                    else:
                        work[mm] = val
                mk = mult[gi]
                val = mk.get(q, 0) + c / lc
                if val == 0:
                    mk.pop(q, None)
                else:
                    mk[q] = val
                applied = True
                break
            if applied:
                break
        if not applied:
            out[m] = out.get(m, 0) + c
            if out[m] == 0:
                del out[m]
        if len(work) > MAX_TERMS:
            raise Fail('blow-up')
    return out, mult


_EQ_CACHE = {}


def triangularise(eqs, budget_s=2.0):
    """inter-reduce the equations: each one is first rewritten with the rules of the (smaller) ones before it becomes a
    rule itself. -> (generators G_j, derivations (g_j, multipliers m_jk) with G_j = g_j - sum_k m_jk G_k)"""
    gens, derivs = [], []
    rules = []
    t0 = time.time()
    for g in sorted(eqs, key=len):
        if time.time() - t0 > budget_s:
            raise Fail('triangularisation budget')
        nf, mult = reduce(g, rules, len(gens), max(0.05, budget_s - (time.time() - t0)))
        if not nf:
            continue
        gens.append(nf)
        derivs.append((g, mult + [dict()]))
        for d in derivs[:-1]:
            d[1].append(dict())
        rules = make_rules(gens)
    return gens, derivs


def equations_of(constraints, conv):
    eqs = []
    for c in constraints:
        key = (conv.serial, c.get_id())
        hit = _EQ_CACHE.get(key)
        if hit is None:
            hit = (_equations_of_one(c, conv), c)
            if len(_EQ_CACHE) > 50000:
                _EQ_CACHE.clear()
            _EQ_CACHE[key] = hit
        eqs += hit[0]
    return eqs


def _equations_of_one(c, conv):
    eqs = []
    if True:
        for e in _flatten_and(c):
            if z3.is_eq(e) and e.children()[0].sort() == z3.RealSort():
                a, b = e.children()
                try:
                    na, da = conv.rf(a)
                    nb, db = conv.rf(b)
                except Fail:
                    continue
                if da != ONE or db != ONE:
                    g = p_add(p_mul(na, db), p_mul(nb, da), -1)
                else:
                    g = p_add(na, nb, -1)
                if g:
                    eqs.append(g)
    return eqs


def _flatten_and(c):
    if z3.is_and(c):
        out = []
        for ch in c.children():
            out += _flatten_and(ch)
        return out
    return [c]


def split_equality(bad):
    """bad = Not(a == b) (possibly with tolerance-free And inside) -> (a, b) or None"""
    if z3.is_not(bad):
        e = bad.children()[0]
        if z3.is_eq(e) and e.children()[0].sort() == z3.RealSort():
            return e.children()
    if z3.is_distinct(bad) and len(bad.children()) == 2 and bad.children()[0].sort() == z3.RealSort():
        return bad.children()
    return None


STATS = dict(tried=0, certified=0, time=0.0, z3_time=0.0, failed_reduce=0, nonzero_nf=0)


SHARED = {}


def shared_conv(tag):
    """one converter (with its term cache) per path: obligations of a path share most sub-terms"""
    c = SHARED.get('conv')
    if c is None or SHARED.get('tag') != tag:
        c = Conv()
        SHARED['conv'] = c
        SHARED['tag'] = tag
    return c


def try_certify(constraints, bad, timeout_ms=4000, budget_s=6.0, tag=None):
    """-> (True, info) if `constraints |= not bad` was certified; (False, reason) otherwise. A failure of the search itself
    (e.g. a cached normal form that belongs to another variable numbering) means "not certified", never an error."""
    try:
        return _try_certify(constraints, bad, timeout_ms, budget_s, tag)
    except (KeyError, IndexError, ValueError, ZeroDivisionError, AttributeError, TypeError) as e:
        STATS['search_errors'] = STATS.get('search_errors', 0) + 1
        return False, f'certificate search failed: {type(e).__name__}: {e}'


def _try_certify(constraints, bad, timeout_ms=4000, budget_s=6.0, tag=None):
    ab = split_equality(bad)
    if ab is None:
        return False, 'not an equality'
    t0 = time.time()
    STATS['tried'] += 1
    DEADLINE[0] = t0 + budget_s
    try:
        conv = Conv() if tag is None else shared_conv(tag)
        a, b = ab
        na, da = conv.rf(a)
        nb, db = conv.rf(b)
        P = p_add(p_mul(na, db), p_mul(nb, da), -1) if (da != ONE or db != ONE) else p_add(na, nb, -1)
        if not P:
            STATS['certified'] += 1
            STATS['time'] += time.time() - t0
            return True, dict(kind='identical after normalisation', multipliers=0)
        eqs = equations_of(constraints, conv)
        nf = None
        for order in (0, 1):
            ORDER[0] = order
            try:
                gens, derivs = triangularise(eqs, budget_s / 4)
                rules = make_rules(gens)
                nf, mult = reduce(P, rules, len(gens), budget_s / 4)
            finally:
                ORDER[0] = 0
            if not nf:
                break
        if nf:
            STATS['nonzero_nf'] += 1
            STATS['time'] += time.time() - t0
            return False, f'normal form not zero ({len(nf)} terms)'
        # the solver decides the identities:  P == sum M_j G_j  and, for every derived generator,
        # G_j == g_j - sum m_jk G_k  (g_j an equation of the constraints): all without hypotheses
        used = [(k, m) for k, m in enumerate(mult) if m]
        need = set(k for k, _ in used)
        changed = True
        while changed:
            changed = False
            for j in list(need):
                for k, m in enumerate(derivs[j][1]):
                    if m and k not in need:
                        need.add(k)
                        changed = True
        zg = {j: conv.to_z3(gens[j]) for j in need}
        rhs = z3.RealVal(0)
        for k, m in used:
            rhs = rhs + conv.to_z3(m) * zg[k]
        idents = [conv.to_z3(P) == rhs]
        for j in sorted(need):
            g0, mj = derivs[j]
            r = conv.to_z3(g0)
            for k, m in enumerate(mj):
                if m:
                    r = r - conv.to_z3(m) * zg[k]
            idents.append(zg[j] == r)
        s = z3.Solver()
        s.set('timeout', timeout_ms)
        s.add(z3.Not(z3.And(idents)))
        t1 = time.time()
        from . import solve as _sv
        r = _sv.guarded_check(s, timeout_ms)
        STATS['z3_time'] += time.time() - t1
        STATS['time'] += time.time() - t0
        if r == z3.unsat:
            STATS['certified'] += 1
            return True, dict(kind='certificate', multipliers=len(used), generators=len(need), terms=len(P))
        return False, f'solver did not confirm the certificate ({r})'
    except Fail as e:
        STATS['failed_reduce'] += 1
        STATS['time'] += time.time() - t0
        return False, f'no certificate: {e}'
    except RecursionError:
        return False, 'term too deep'


def canon_key(t, max_nodes=4000, budget_s=0.2):
    """hashable canonical form of a real term as a rational function (expanded numerator / denominator, denominator
    monic in its leading monomial), or None. Terms that are equal as rational functions get the same key."""
    DEADLINE[0] = time.time() + budget_s
    try:
        conv = Conv()
        n, d = conv.rf(t)
        if len(conv.cache) > max_nodes:
            return None
        if not d:
            return None
        lm = max(d.keys(), key=_mkey)
        lc = d[lm]
        if lc != 1:
            n = {m: c / lc for m, c in n.items()}
            d = {m: c / lc for m, c in d.items()}
        return (frozenset(n.items()), frozenset(d.items()))
    except (Fail, RecursionError):
        return None
