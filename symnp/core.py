"""symnp core: symbolic reals living in numpy object arrays, path exploration, obligations.

The real ahrs code is executed on arrays whose elements are `SR` (z3 Real terms). Branches on
`SymBool` fork the execution (depth-first re-execution under a decision schedule). Partial
operations (division, sqrt, arccos, ...) record definedness obligations.
"""
import sys
import os
import builtins
import math
import time
from fractions import Fraction as F

import numpy as _np
import z3


K_SAMPLES = 64
SAMPLE_RNG = _np.random.default_rng(12345)


class SymnpUnsupported(BaseException):
    """Engine limitation (never confused with the code's own exceptions)."""


class Abort(BaseException):
    """Path abandoned (infeasible)."""


class Restart(BaseException):
    """Re-run the current path (trig granularity changed)."""


# ----------------------------------------------------------------------------------------------
# pi handling: floats that are rational multiples of pi^(+-1) are kept symbolic
# ----------------------------------------------------------------------------------------------
# In arithmetic contexts pi is the rational its float prints as (keeps `x*DEG2RAD`, `% (2*pi)`, range comparisons linear);
# the trig layer works on exact rational multiples of pi through the linear angle forms, so cos(pi/2) is exactly 0.
PI = z3.RealVal('3.141592653589793')
PI_BOUNDS = []
_PI_TABLE = {}


def _build_pi_table():
    dens = [1, 2, 3, 4, 6, 8, 12, 16, 180, 360, 90, 45, 60, 30]
    for d in dens:
        for n in range(1, 25):
            fr = F(n, d)
            v = float(fr) * math.pi
            _PI_TABLE.setdefault(repr(v), (fr, 1))
            v2 = float(fr.numerator) * math.pi / float(fr.denominator)
            _PI_TABLE.setdefault(repr(v2), (fr, 1))
            v3 = math.pi / float(fr.denominator) * float(fr.numerator)
            _PI_TABLE.setdefault(repr(v3), (fr, 1))
    for k in (180, 360, 90, 1, 2, 4, 0.5):
        _PI_TABLE.setdefault(repr(k / math.pi), (F(k), -1))
    _PI_TABLE.setdefault(repr(1.0 / (math.pi / 180.0)), (F(180), -1))


_build_pi_table()


def pi_multiple(x):
    """(k, p) with x == k*pi**p for a recognised float, else None"""
    ax = abs(x)
    hit = _PI_TABLE.get(repr(ax))
    if hit is None:
        return None
    k, p = hit
    return (k if x > 0 else -k, p)


def nice_fraction(x):
    """the rational a float stands for: n/d with small d when the float is the nearest double to it (1/3, 2/3, ...),
    otherwise the decimal it prints as"""
    fr = F(x).limit_denominator(720)
    if builtins.float(fr) == x:
        return fr
    return F(repr(x))


def _is_nan(x):
    return isinstance(x, (builtins.float, _np.floating)) and x != x


NAN = builtins.float('nan')


def _is_num(x):
    return isinstance(x, (int, builtins.float, _np.floating, _np.integer, F)) and not isinstance(x, (bool, _np.bool_))


_lift_cache = {}


def lift(x):
    """python/numpy number or SR -> z3 Real term"""
    if isinstance(x, SR):
        return x.t
    if isinstance(x, (bool, _np.bool_)):
        return z3.RealVal(int(x))
    if isinstance(x, (int, _np.integer)):
        return z3.RealVal(int(x))
    if isinstance(x, F):
        return z3.RealVal(str(x))
    if isinstance(x, (builtins.float, _np.floating)):
        x = builtins.float(x)
        key = repr(x)
        r = _lift_cache.get(key)
        if r is not None:
            return r
        if x != x or x in (math.inf, -math.inf):
            raise SymnpUnsupported(f"non-finite constant {x} met symbolic arithmetic")
        pm = pi_multiple(x)
        if pm is not None:
            k, p = pm
            kk = z3.RealVal(str(k))
            r = kk * PI if p == 1 else kk / PI
            CTX.uses_pi = True
        elif x == int(x) and abs(x) < 1e15:
            r = z3.RealVal(int(x))
        else:
            r = z3.RealVal(str(nice_fraction(x)))
        _lift_cache[key] = r
        return r
    raise SymnpUnsupported(f"cannot lift {type(x)} into a symbolic real")


# ----------------------------------------------------------------------------------------------
# Linear angle forms (for the trig layer): value = sum coeff_i * atom_i + const, coefficients are
# Laurent polynomials in pi with rational coefficients:  {power: Fraction}
# ----------------------------------------------------------------------------------------------
class PiPoly:
    __slots__ = ('d',)

    def __init__(self, d=None):
        self.d = {p: c for p, c in (d or {}).items() if c != 0}

    @staticmethod
    def of(x):
        if isinstance(x, PiPoly):
            return x
        if isinstance(x, (int, _np.integer)) and not isinstance(x, bool):
            return PiPoly({0: F(int(x))})
        if isinstance(x, F):
            return PiPoly({0: x})
        if isinstance(x, (builtins.float, _np.floating)):
            x = builtins.float(x)
            if x != x or x in (math.inf, -math.inf):
                return None
            pm = pi_multiple(x)
            if pm is not None:
                return PiPoly({pm[1]: pm[0]})
            return PiPoly({0: nice_fraction(x)})
        return None

    def __add__(self, o):
        d = dict(self.d)
        for p, c in o.d.items():
            d[p] = d.get(p, 0) + c
        return PiPoly(d)

    def __neg__(self):
        return PiPoly({p: -c for p, c in self.d.items()})

    def __sub__(self, o):
        return self + (-o)

    def __mul__(self, o):
        d = {}
        for p, c in self.d.items():
            for p2, c2 in o.d.items():
                d[p + p2] = d.get(p + p2, 0) + c * c2
        return PiPoly(d)

    def inv(self):
        if len(self.d) != 1:
            return None
        (p, c), = self.d.items()
        return PiPoly({-p: 1 / c})

    def is_zero(self):
        return not self.d

    def rational(self):
        """Fraction if pure rational else None"""
        if not self.d:
            return F(0)
        if set(self.d) == {0}:
            return self.d[0]
        return None

    def pi_rational(self):
        """k if self == k*pi else None"""
        if not self.d:
            return F(0)
        if set(self.d) == {1}:
            return self.d[1]
        return None

    def as_float(self):
        return sum(builtins.float(c) * math.pi ** p for p, c in self.d.items())

    def __repr__(self):
        return 'PiPoly(%r)' % (self.d,)


class Lin:
    """sum_i coeff[name]*atom + const"""
    __slots__ = ('a', 'c')

    def __init__(self, a, c):
        self.a = {k: v for k, v in a.items() if not v.is_zero()}
        self.c = c

    @staticmethod
    def of(x):
        if isinstance(x, SR):
            return x.lin
        p = PiPoly.of(x)
        return None if p is None else Lin({}, p)

    def add(self, o, sign=1):
        a = dict(self.a)
        for k, v in o.a.items():
            a[k] = (a[k] + (v if sign == 1 else -v)) if k in a else (v if sign == 1 else -v)
        return Lin(a, self.c + o.c if sign == 1 else self.c - o.c)

    def scale(self, k):
        return Lin({n: v * k for n, v in self.a.items()}, self.c * k)

    def is_const(self):
        return not self.a


def _lin_add(a, b, sign=1):
    if a is None or b is None:
        return None
    return a.add(b, sign)


def _lin_mul(a, b):
    if a is None or b is None:
        return None
    if a.is_const():
        return b.scale(a.c)
    if b.is_const():
        return a.scale(b.c)
    return None


def _lin_div(a, b):
    if a is None or b is None or not b.is_const():
        return None
    k = b.c.inv()
    if k is None:
        return None
    return a.scale(k)


# ----------------------------------------------------------------------------------------------
# Execution context
# ----------------------------------------------------------------------------------------------
class Ctx:
    def __init__(self):
        self.mode = 'off'          # 'sym' | 'conc' | 'off'
        self.feas_tmo = 1000       # ms, per feasibility query
        self.sqrt_tmo = 800
        self.max_decisions = 400
        self.defer_sides = True
        self.seed_env = None
        self.uses_pi = False
        self.stats = dict(feas_queries=0, feas_time=0.0, feas_unknown=0, rewrites=0, rewrite_queries=0)
        self.global_decl = {}      # name -> z3 var (harness inputs)
        self.reset_path([])

    def reset_path(self, schedule):
        self.schedule = list(schedule)
        self.pos = 0
        self.dcache = {}
        self.domain = []           # harness assumptions
        self.pc = []               # branch conditions
        self.defs = []             # definitions of introduced variables
        self.assumes = []          # definedness assumptions (den != 0, sqrt arg >= 0, ...)
        self.oblig = []            # definedness obligations
        self.fresh = 0
        self.sqrt_cache = {}
        self.recipes = {}          # introduced var name -> recipe for numeric evaluation
        self.pool = [1.0]          # candidate terms for certified sqrt rewriting
        self.events = []
        self.inputs = {}           # declared input variables name -> z3 var
        self.deferred = []
        self.exact = {}            # input name -> exact rational value of each shadow sample (pinned-sample queries)
        self.fvs = {}              # input name -> float value of each shadow sample
        self.mask = _np.ones(K_SAMPLES, dtype=bool)   # samples known to satisfy the path so far
        self.mask_opt = _np.ones(K_SAMPLES, dtype=bool)
        global SAMPLE_RNG
        SAMPLE_RNG = _np.random.default_rng(12345 + 7 * getattr(self, 'sample_seed', 0))
        self.trig_reset()

    def trig_reset(self):
        self.atoms = {}
        self.units = {}
        self.angle_n = 0

    # snapshot of current constraint sets (lists only grow along a path)
    def snap(self):
        return (len(self.domain), len(self.pc), len(self.defs), len(self.assumes))

    def constraints(self, snap=None, with_assumes=True):
        if snap is None:
            snap = self.snap()
        d, p, f, a = snap
        out = self.domain[:d] + self.pc[:p] + self.defs[:f]
        if with_assumes:
            out += self.assumes[:a]
        if self.uses_pi:
            out = PI_BOUNDS + out
        return out

    def newvar(self, pfx, recipe=None):
        self.fresh += 1
        name = f"{pfx}!{self.fresh}"
        v = z3.Real(name)
        if recipe is not None:
            self.recipes[name] = recipe
        return v

    def feasible(self, extra):
        """z3.sat / z3.unsat / z3.unknown for  path constraints + extra  (z3 first, then cvc5 which is much better at
        refuting: incremental linearisation)"""
        cons = self.constraints() + [extra]
        # relevance filter: a subset of the constraints that is already unsatisfiable settles it (sound for `unsat`)
        ev = vars_of(extra)
        if ev:
            sub = [c for c in cons[:-1] if vars_of(c) <= ev]
            if sub and len(sub) < len(cons) - 1:
                s0 = z3.Solver()
                s0.set('timeout', 250)
                s0.set('rlimit', 2000000)
                for c in sub:
                    s0.add(c)
                s0.add(extra)
                t = time.time()
                from . import solve as _solve
                r0 = _solve.guarded_check(s0, 250)
                self.stats['feas_time'] += time.time() - t
                if r0 == z3.unsat:
                    self.stats['feas_queries'] += 1
                    self.stats['subset_unsat'] = self.stats.get('subset_unsat', 0) + 1
                    return z3.unsat
        s = z3.Solver()
        s.set('timeout', max(100, self.feas_tmo // 4))
        s.set('rlimit', 3000000)
        for c in cons:
            s.add(c)
        t = time.time()
        from . import solve
        r = solve.guarded_check(s, max(100, self.feas_tmo // 4))
        if r == z3.unknown:
            st, _ = solve.cvc5_inproc(cons, self.feas_tmo)
            self.stats['cvc5_feas'] = self.stats.get('cvc5_feas', 0) + 1
            if st == 'unsat':
                r = z3.unsat
            elif st == 'sat':
                r = z3.sat
        self.stats['feas_time'] += time.time() - t
        self.stats['feas_queries'] += 1
        if r == z3.unknown:
            self.stats['feas_unknown'] += 1
        return r

    def sample_sides(self, fv):
        """(true side witnessed, false side witnessed) among the shadow samples that satisfy the path"""
        if fv is None or not self.mask.any():
            return False, False
        with _np.errstate(all='ignore'):
            fv = _np.asarray(fv, dtype=bool)
            return bool((fv & self.mask).any()), bool((~fv & self.mask).any())

    def branch(self, cond, fv=None):
        if self.mode != 'sym':
            raise SymnpUnsupported("symbolic branch outside symbolic mode")
        cond = z3.simplify(cond)
        if z3.is_true(cond):
            return True
        if z3.is_false(cond):
            return False
        key = cond.get_id()
        if key in self.dcache:
            return self.dcache[key][0]
        ncond = z3.simplify(z3.Not(cond))
        nkey = ncond.get_id()
        if self.pos < len(self.schedule):
            val, forced = self.schedule[self.pos]
        else:
            if self.pos >= self.max_decisions:
                raise SymnpUnsupported("decision bound exceeded")
            t_ok, f_ok = self.sample_sides(fv)
            self.stats['sample_hits'] = self.stats.get('sample_hits', 0) + int(t_ok) + int(f_ok)
            if self.defer_sides and (t_ok != f_ok):
                # one side witnessed by samples, the other not: take the witnessed side now; the other side becomes a
                # *deferred side*: an obligation ("this side is infeasible") for the parallel solver pool, explored in a
                # later round if it is not refuted
                val, forced = t_ok, True
                self.deferred.append(dict(prefix=list(self.schedule[:self.pos]) + [(not val, True)],
                                          bad=(ncond if val else cond), snap=self.snap()))
                self.stats['deferred_sides'] = self.stats.get('deferred_sides', 0) + 1
            else:
                rt = z3.sat if t_ok else self.feasible(cond)
                if rt == z3.unsat:
                    val, forced = False, True
                else:
                    rf = z3.sat if f_ok else self.feasible(z3.Not(cond))
                    if rf == z3.unsat:
                        val, forced = True, True
                    else:
                        val, forced = True, False
            self.schedule.append((val, forced))
        self.pos += 1
        self.pc.append(cond if val else z3.Not(cond))
        mask_and(None if fv is None else (fv if val else ~_np.asarray(fv, dtype=bool)))
        self.dcache[key] = (val, cond)        # the stored term keeps the AST id alive (ids are recycled otherwise)
        self.dcache[nkey] = (not val, ncond)
        return val

    def obligation(self, kind, bad, note=''):
        """definedness obligation: `bad` (z3 Bool) must be unsatisfiable on this path"""
        if z3.is_false(z3.simplify(bad)):
            return
        self.oblig.append(dict(kind=kind, bad=bad, snap=self.snap(), note=note))


CTX = Ctx()


# ----------------------------------------------------------------------------------------------
# Shadow samples: every SR / SymBool optionally carries the float values it takes on K random inputs of the harness
# domain. They are used ONLY to answer "is this branch side feasible?" without a solver call (a sample that satisfies
# the path so far and the condition is a witness of feasibility). Infeasibility and every obligation is always
# decided by the solver.
# ----------------------------------------------------------------------------------------------


def fv_of(x):
    """shadow value of a python number or SR (None when unknown)"""
    if isinstance(x, SR):
        return x.fv
    if isinstance(x, (bool, _np.bool_)):
        return builtins.float(x)
    if _is_num(x):
        return builtins.float(x)
    return None


def _fop(op, *xs):
    vs = []
    for x in xs:
        v = fv_of(x)
        if v is None:
            return None
        vs.append(v)
    with _np.errstate(all='ignore'):
        try:
            r = op(*vs)
        except Exception:
            return None
    if not isinstance(r, _np.ndarray):
        r = _np.full(K_SAMPLES, r)
    return r


def mask_and(fv):
    """restrict the set of samples known to satisfy the path (mask), and the set not known to leave it (mask_opt: a condition
    without sample values leaves it alone; used only to pick candidate inputs for model search, which are replayed anyway)"""
    if fv is None:
        CTX.mask = _np.zeros(K_SAMPLES, dtype=bool)
    else:
        with _np.errstate(all='ignore'):
            CTX.mask = CTX.mask & _np.asarray(fv, dtype=bool)
            CTX.mask_opt = CTX.mask_opt & _np.asarray(fv, dtype=bool)


# ----------------------------------------------------------------------------------------------
# Symbolic booleans and reals
# ----------------------------------------------------------------------------------------------
def _b(o):
    if isinstance(o, SymBool):
        return o.e
    if isinstance(o, (bool, _np.bool_)):
        return z3.BoolVal(bool(o))
    if isinstance(o, SR):
        return o.t != 0
    raise SymnpUnsupported(f"bool op with {type(o)}")


def _bfv(o):
    if isinstance(o, SymBool):
        return o.fv
    if isinstance(o, (bool, _np.bool_)):
        return _np.full(K_SAMPLES, bool(o))
    if isinstance(o, SR):
        return None if o.fv is None else (o.fv != 0)
    return None


def _bop(op, a, b):
    fa, fb = _bfv(a), _bfv(b)
    if fa is None or fb is None:
        return None
    return op(fa, fb)


class SymBool:
    __slots__ = ('e', 'fv')

    def __init__(self, e, fv=None):
        self.e = e
        self.fv = fv

    def __bool__(self):
        return CTX.branch(self.e, self.fv)

    def __and__(self, o):
        if isinstance(o, _np.ndarray):
            return NotImplemented
        return SymBool(z3.And(self.e, _b(o)), _bop(_np.logical_and, self, o))

    __rand__ = __and__

    def __or__(self, o):
        if isinstance(o, _np.ndarray):
            return NotImplemented
        return SymBool(z3.Or(self.e, _b(o)), _bop(_np.logical_or, self, o))

    __ror__ = __or__

    def __invert__(self):
        return SymBool(z3.Not(self.e), None if self.fv is None else ~self.fv)

    def __eq__(self, o):
        return SymBool(self.e == _b(o), _bop(_np.equal, self, o))

    def __ne__(self, o):
        return SymBool(self.e != _b(o), _bop(_np.not_equal, self, o))

    def __hash__(self):
        return id(self)

    def __repr__(self):
        return f"SymBool({self.e})"


def _arr(o):
    return isinstance(o, _np.ndarray)


def _const_of(t):
    """python Fraction if the z3 term is a rational numeral"""
    if z3.is_rational_value(t):
        return F(t.numerator_as_long(), t.denominator_as_long())
    return None


class SR:
    """symbolic real: z3 term + optional linear angle form + factored multiplicative form"""
    __slots__ = ('t', 'lin', 'fac', 'fv')

    def __init__(self, t, lin=None, fac=None, fv=None):
        self.t = t
        self.lin = lin
        self.fac = fac   # (coef Fraction, {id: (term, power)}) or None
        self.fv = fv     # shadow sample values (numpy array of K floats) or None

    def __repr__(self):
        s = str(self.t)
        return f"SR({s[:60]}{'...' if len(s) > 60 else ''})"

    # ---- factored form helpers
    def _fac(self):
        if self.fac is not None:
            return self.fac
        return (F(1), {self.t.get_id(): (self.t, 1)})

    @staticmethod
    def _from_fac(coef, fd):
        num = None
        den = None
        for _, (t, p) in fd.items():
            for _ in range(abs(p)):
                if p > 0:
                    num = t if num is None else num * t
                else:
                    den = t if den is None else den * t
        if num is None:
            num = z3.RealVal(str(coef))
        elif coef != 1:
            num = z3.RealVal(str(coef)) * num
        return num if den is None else num / den

    # ---- arithmetic
    def __add__(self, o):
        if _arr(o):
            return NotImplemented
        if _is_nan(o):
            return NAN
        if _is_num(o) and o == 0:
            return self
        return SR(self.t + lift(o), _lin_add(self.lin, Lin.of(o)), None, _fop(_np.add, self, o))

    __radd__ = __add__

    def __sub__(self, o):
        if _arr(o):
            return NotImplemented
        if _is_nan(o):
            return NAN
        if _is_num(o) and o == 0:
            return self
        return SR(self.t - lift(o), _lin_add(self.lin, Lin.of(o), -1), None, _fop(_np.subtract, self, o))

    def __rsub__(self, o):
        if _arr(o):
            return NotImplemented
        if _is_nan(o):
            return NAN
        if _is_num(o) and o == 0:
            return -self
        return SR(lift(o) - self.t, _lin_add(Lin.of(o), self.lin, -1), None, _fop(_np.subtract, o, self))

    def __mul__(self, o):
        if _arr(o):
            return NotImplemented
        if _is_nan(o):
            return NAN
        if _is_num(o):
            if o == 0:
                return 0.0
            if o == 1:
                return self
            if o == -1:
                return -self
            c, fd = self._fac()
            fo = nice_fraction(builtins.float(o)) if not isinstance(o, (int, _np.integer, F)) else F(int(o)) if not isinstance(o, F) else o
            pm = pi_multiple(builtins.float(o)) if isinstance(o, (builtins.float, _np.floating)) else None
            fac = (c * fo, fd) if pm is None else None
            return SR(self.t * lift(o), _lin_mul(self.lin, Lin.of(o)), fac, _fop(_np.multiply, self, o))
        if isinstance(o, SR):
            if (self.lin is not None and self.lin.a and not (o.lin is not None and o.lin.is_const())) or \
               (o.lin is not None and o.lin.a and not (self.lin is not None and self.lin.is_const())):
                _angle_value_used(self, o)
            c1, f1 = self._fac()
            c2, f2 = o._fac()
            fd = dict(f1)
            cancel = False
            for k, (t, p) in f2.items():
                if k in fd:
                    np_ = fd[k][1] + p
                    if abs(np_) < abs(fd[k][1]) + abs(p):
                        cancel = True
                    if np_ == 0:
                        del fd[k]
                    else:
                        fd[k] = (t, np_)
                else:
                    fd[k] = (t, p)
            fac = (c1 * c2, fd)
            t = SR._from_fac(*fac) if cancel else self.t * o.t
            return SR(t, _lin_mul(self.lin, o.lin), fac, _fop(_np.multiply, self, o))
        return SR(self.t * lift(o), None)

    __rmul__ = __mul__

    def _recip(self):
        c, fd = self._fac()
        return (1 / c, {k: (t, -p) for k, (t, p) in fd.items()})

    def __truediv__(self, o):
        if _arr(o):
            return NotImplemented
        if _is_nan(o):
            return NAN
        if _is_num(o):
            if o == 0:
                # x/0: NumPy gives inf/nan and goes on; so does the symbolic run (the non-finite value makes every
                # assertion it reaches false on this path, and the definedness obligation is unconditional)
                CTX.obligation('div', z3.BoolVal(True), 'division by concrete zero')
                return NAN
            if o == 1:
                return self
            return SR(self.t / lift(o), _lin_div(self.lin, Lin.of(o)), self._scaled_fac(o), _fop(_np.divide, self, o))
        if isinstance(o, SR):
            cst = _const_of(o.t)
            if cst is not None and cst != 0:
                return SR(self.t / o.t, _lin_div(self.lin, Lin({}, PiPoly({0: cst}))), None, _fop(_np.divide, self, o))
            _record_div(o.t, o.fv)
            rc, rf = o._recip()
            c1, f1 = self._fac()
            fd = dict(f1)
            cancel = False
            for k, (t, p) in rf.items():
                if k in fd:
                    np_ = fd[k][1] + p
                    if abs(np_) < abs(fd[k][1]) + abs(p):
                        cancel = True
                    if np_ == 0:
                        del fd[k]
                    else:
                        fd[k] = (t, np_)
                else:
                    fd[k] = (t, p)
            fac = (c1 * rc, fd)
            t = SR._from_fac(*fac) if cancel else self.t / o.t
            return SR(t, _lin_div(self.lin, o.lin), fac, _fop(_np.divide, self, o))
        raise SymnpUnsupported(f"div by {type(o)}")

    def _scaled_fac(self, o):
        if isinstance(o, (builtins.float, _np.floating)) and pi_multiple(builtins.float(o)) is not None:
            return None
        c, fd = self._fac()
        fo = nice_fraction(builtins.float(o)) if not isinstance(o, (int, _np.integer)) else F(int(o))
        return (c / fo, fd)

    def __rtruediv__(self, o):
        if _arr(o):
            return NotImplemented
        if _is_nan(o):
            return NAN
        if _is_num(o) and o == 0:
            _record_div(self.t, self.fv)
            return 0.0
        _record_div(self.t, self.fv)
        rc, rf = self._recip()
        if _is_num(o) and not (isinstance(o, (builtins.float, _np.floating)) and pi_multiple(builtins.float(o))):
            fo = nice_fraction(builtins.float(o)) if not isinstance(o, (int, _np.integer)) else F(int(o))
            fac = (rc * fo, rf)
        else:
            fac = None
        return SR(lift(o) / self.t, None, fac, _fop(_np.divide, o, self))

    def __neg__(self):
        c, fd = self._fac()
        return SR(-self.t, None if self.lin is None else self.lin.scale(PiPoly({0: F(-1)})), (-c, fd), None if self.fv is None else -self.fv)

    def __pos__(self):
        return self

    def __abs__(self):
        return lazy_if(self.t >= 0, self, -self, None if self.fv is None else self.fv >= 0)

    def __pow__(self, o):
        if isinstance(o, SR):
            c = _const_of(o.t)
            if c is None:
                raise SymnpUnsupported("symbolic exponent")
            o = builtins.float(c)
        if isinstance(o, (int, _np.integer)) or (isinstance(o, (builtins.float, _np.floating)) and o == int(o)):
            o = int(o)
            if o == 0:
                return 1.0
            r = self
            for _ in range(abs(o) - 1):
                r = r * self
            return r if o > 0 else 1.0 / r
        if isinstance(o, (builtins.float, _np.floating)) and o == 0.5:
            return sym_sqrt(self)
        raise SymnpUnsupported(f"power {o!r} of symbolic real")

    def __rpow__(self, o):
        if _is_num(o) and abs(builtins.float(o) - math.e) < 1e-15:
            from . import proxy
            return proxy._exp1(self)
        raise SymnpUnsupported("symbolic exponent")

    def __mod__(self, o):
        return sym_mod(self, o)

    def __floordiv__(self, o):
        raise SymnpUnsupported("floor division of symbolic real")

    # ---- comparisons
    def __lt__(self, o):
        if _arr(o):
            return NotImplemented
        if _is_nan(o):
            return False
        _angle_compared(self, o)
        return SymBool(self.t < lift(o), _fop(_np.less, self, o))

    def __le__(self, o):
        if _arr(o):
            return NotImplemented
        if _is_nan(o):
            return False
        _angle_compared(self, o)
        return SymBool(self.t <= lift(o), _fop(_np.less_equal, self, o))

    def __gt__(self, o):
        if _arr(o):
            return NotImplemented
        if _is_nan(o):
            return False
        _angle_compared(self, o)
        return SymBool(self.t > lift(o), _fop(_np.greater, self, o))

    def __ge__(self, o):
        if _arr(o):
            return NotImplemented
        if _is_nan(o):
            return False
        _angle_compared(self, o)
        return SymBool(self.t >= lift(o), _fop(_np.greater_equal, self, o))

    def __eq__(self, o):
        if _arr(o):
            return NotImplemented
        if o is None or isinstance(o, str) or _is_nan(o):
            return False
        _angle_compared(self, o)
        return SymBool(self.t == lift(o), _fop(_np.equal, self, o))

    def __ne__(self, o):
        if _arr(o):
            return NotImplemented
        if o is None or isinstance(o, str) or _is_nan(o):
            return True
        _angle_compared(self, o)
        return SymBool(self.t != lift(o), _fop(_np.not_equal, self, o))

    def __hash__(self):
        return id(self)

    def __bool__(self):
        return CTX.branch(self.t != 0, None if self.fv is None else self.fv != 0)

    def __float__(self):
        raise SymnpUnsupported("concretisation (float()) of a symbolic real")

    def __int__(self):
        raise SymnpUnsupported("concretisation (int()) of a symbolic real")

    def __index__(self):
        raise SymnpUnsupported("symbolic real used as index")

    def __round__(self, n=None):
        raise SymnpUnsupported("round() of a symbolic real")

    # numpy calls these on object arrays
    def conjugate(self):
        return self

    conj = conjugate

    @property
    def real(self):
        return self

    @property
    def imag(self):
        return 0.0

    def sqrt(self):
        return sym_sqrt(self)

    def item(self):
        return self

    @property
    def ndim(self):
        return 0

    @property
    def shape(self):
        return ()

    def copy(self):
        return self

    def __copy__(self):
        return self

    def __deepcopy__(self, memo):
        return self


def _angle_value_used(*xs):
    """the numeric value of an angle (not just its sine/cosine) enters the arithmetic: tie the value symbols of angles
    with equal (cos, sin) together (injectivity of the inverse trigonometric functions on their principal ranges)"""
    from . import trig
    names = []
    for x in xs:
        if isinstance(x, SR) and x.lin is not None:
            names += list(x.lin.a)
    if names:
        trig.need_value(names)


def _angle_compared(*xs):
    """an angle value is compared: make sure its atoms carry their sign/range links to their (cos, sin) pair"""
    names = []
    for x in xs:
        if isinstance(x, SR) and x.lin is not None and x.lin.a:
            names += list(x.lin.a)
    if names:
        from . import trig
        trig.materialise(names)
        if len(set(names)) > 1:
            trig.need_value(names)


def _record_div(den, fv=None):
    mask_and(None if fv is None else fv != 0)
    den_s = z3.simplify(den)
    c = _const_of(den_s)
    if c is not None:
        if c == 0:
            CTX.obligation('div', z3.BoolVal(True), 'division by zero')
        return
    CTX.obligation('div', den == 0, 'denominator')
    CTX.assumes.append(den != 0)


def sym_sqrt(x):
    if not isinstance(x, SR):
        x = builtins.float(x)
        return math.sqrt(x) if x >= 0 else builtins.float('nan')
    xs = z3.simplify(x.t)
    from . import algcert
    key = algcert.canon_key(xs)
    if key is None:
        key = xs.get_id()
    else:
        key = ('sqrt',) + key
    hit = CTX.sqrt_cache.get(key)
    if hit is not None:
        return hit[0]
    cst = _const_of(xs)
    if cst is not None:
        if cst < 0:
            CTX.obligation('sqrt', z3.BoolVal(True), 'sqrt of negative constant')
            raise SymnpUnsupported("sqrt of negative constant")
        n, d = cst.numerator, cst.denominator
        rn, rd = math.isqrt(n), math.isqrt(d)
        if rn * rn == n and rd * rd == d:
            return builtins.float(F(rn, rd)) if F(rn, rd).denominator in (1, 2, 4, 5, 8, 10) else SR(z3.RealVal(str(F(rn, rd))))
    # even powers in factored form: sqrt(c^2 * X^2) etc. handled only through certified rewriting
    for cand in CTX.pool:
        ct = cand.t if isinstance(cand, SR) else lift(cand)
        # numeric pre-filter on the shadow samples: a candidate that is not the root on some valid sample is skipped
        cf = fv_of(cand)
        if x.fv is not None and cf is not None and CTX.mask.any():
            with _np.errstate(all='ignore'):
                cfa = _np.broadcast_to(_np.asarray(cf, dtype=builtins.float), x.fv.shape)
                okv = (_np.abs(cfa * cfa - x.fv) <= 1e-9 * (1 + _np.abs(x.fv))) & (cfa >= -1e-12)
            if not bool(okv[CTX.mask].all()):
                continue
        t0 = time.time()
        CTX.stats['rewrite_queries'] += 1
        cons = CTX.constraints()
        ok = False
        nonneg = _const_of(ct) is not None and _const_of(ct) >= 0
        from . import algcert
        try:
            cert, _info = algcert.try_certify(cons, z3.Not(x.t == ct * ct), budget_s=0.6)
        except (KeyError, IndexError, ValueError) as _e:     # certificate search failed: not certified
            cert, _info = False, f'certificate search failed: {type(_e).__name__}'
        if cert:
            if nonneg:
                ok = True
            else:
                s = z3.Solver()
                s.set('timeout', CTX.sqrt_tmo)
                for c in cons:
                    s.add(c)
                s.add(ct < 0)
                from . import solve as _sv
                ok = _sv.guarded_check(s, CTX.sqrt_tmo) == z3.unsat
        elif not str(_info).startswith('normal form not zero'):
            s = z3.Solver()
            s.set('timeout', CTX.sqrt_tmo)
            for c in cons:
                s.add(c)
            s.add(z3.Or(x.t != ct * ct, ct < 0))
            from . import solve as _sv
            ok = _sv.guarded_check(s, CTX.sqrt_tmo) == z3.unsat
        CTX.stats['feas_time'] += time.time() - t0
        if ok:
            out = cand
            mask_and(None if x.fv is None else x.fv >= 0)
            CTX.sqrt_cache[key] = (out, xs)
            CTX.stats['rewrites'] += 1
            CTX.events.append(('sqrt-rewrite', str(ct)[:80]))
            return out
    CTX.obligation('sqrt', x.t < 0, 'sqrt argument')
    r = CTX.newvar('sqrt', ('sqrt', x.t))
    CTX.assumes.append(x.t >= 0)
    CTX.defs += [r >= 0, r * r == x.t]
    mask_and(None if x.fv is None else x.fv >= 0)
    out = SR(r, None, None, _fop(_np.sqrt, x))
    CTX.sqrt_cache[key] = (out, xs)
    return out


def sym_cbrt(x):
    if not isinstance(x, SR):
        return builtins.float(_np.cbrt(builtins.float(x)))
    key = ('cbrt', x.t.get_id())
    hit = CTX.sqrt_cache.get(key)
    if hit is not None:
        return hit[0]
    r = CTX.newvar('cbrt', ('cbrt', x.t))
    CTX.defs += [r * r * r == x.t]
    out = SR(r, None, None, _fop(_np.cbrt, x))
    CTX.sqrt_cache[key] = (out, x.t)
    return out


def sym_mod(x, m):
    """python/numpy float modulo with positive concrete (or pi-multiple) modulus: x - m*floor(x/m)"""
    if not isinstance(x, SR) and not isinstance(m, SR):
        return builtins.float(x) % builtins.float(m)
    mt = lift(m)
    xt = lift(x)
    mc = _const_of(z3.simplify(mt))
    if mc is not None and mc > 0:
        # the common cases k in {0, -1, 1} as (lazily simplified) case distinctions; an integer symbol only beyond them
        fx = fv_of(x)
        mf = builtins.float(mc)

        def general():
            return _mod_general(x, xt, mt, m)
        c0 = z3.And(xt >= 0, xt < mt)
        cm = z3.And(xt < 0, xt >= -mt)
        cp = z3.And(xt >= mt, xt < 2 * mt)
        f0 = None if fx is None else ((fx >= 0) & (fx < mf))
        fm = None if fx is None else ((fx < 0) & (fx >= -mf))
        fp = None if fx is None else ((fx >= mf) & (fx < 2 * mf))
        d0 = _decided(c0, f0)
        if d0 is True:
            return x
        dm = _decided(cm, fm)
        if dm is True:
            return x + m
        dp = _decided(cp, fp)
        if dp is True:
            return x - m
        if d0 is False and dm is False and dp is False:
            return general()
        inner = general() if not (d0 is None and dm is None and dp is False) else None
        fv = _fop(_np.mod, x, m)
        # modulo a whole number of turns the angle is unchanged as far as sin / cos are concerned
        lin = None
        pm = PiPoly.of(builtins.float(mc)) if True else None
        if isinstance(x, SR) and x.lin is not None and pm is not None:
            kk = pm.pi_rational()
            if kk is None:
                kk2 = F(builtins.float(mc) / (2 * math.pi)).limit_denominator(1000)
                if abs(builtins.float(kk2) * 2 * math.pi - builtins.float(mc)) < 1e-12:
                    kk = 2 * kk2
            if kk is not None and kk % 2 == 0:
                lin = x.lin
        if inner is None:
            return SR(z3.If(c0, xt, xt + mt), lin, None, fv)
        return SR(z3.If(c0, xt, z3.If(cm, xt + mt, z3.If(cp, xt - mt, lift(inner)))), lin, None, fv)
    return _mod_general(x, xt, mt, m)


def _mod_general(x, xt, mt, m):
    k = CTX.newvar('modk', ('floor_div', xt, mt))
    ki = z3.Int(f"modk_i!{CTX.fresh}")
    r = xt - mt * k
    CTX.defs += [k == z3.ToReal(ki), z3.If(mt > 0, z3.And(r >= 0, r < mt), z3.And(r <= 0, r > mt))]
    return SR(r, None, None, _fop(_np.mod, x, m))


def sym_sign(x):
    if not isinstance(x, SR):
        return builtins.float(_np.sign(x))
    return SR(z3.If(x.t > 0, z3.RealVal(1), z3.If(x.t < 0, z3.RealVal(-1), z3.RealVal(0))), None, None, _fop(_np.sign, x))


def sym_abs(x):
    if not isinstance(x, SR):
        return abs(x)
    return lazy_if(x.t >= 0, x, -x, None if x.fv is None else x.fv >= 0)


def _decided(cond, fv=None):
    """True/False if the context forces the condition (cheap feasibility queries), else None"""
    cond = z3.simplify(cond)
    if z3.is_true(cond):
        return True
    if z3.is_false(cond):
        return False
    key = ('dec', cond.get_id())
    hit = CTX.sqrt_cache.get(key)
    if hit is not None:
        return hit[0]
    res = None
    t_ok, f_ok = CTX.sample_sides(fv)
    if t_ok and f_ok:
        res = None
    elif not t_ok and CTX.feasible(cond) == z3.unsat:
        res = False
    elif not f_ok and CTX.feasible(z3.Not(cond)) == z3.unsat:
        res = True
    CTX.sqrt_cache[key] = (res, cond)
    return res


def lazy_if(cond, a, b, cfv=None):
    """If(cond, a, b) simplified when the path context decides cond"""
    d = _decided(cond, cfv)
    if d is True:
        return a
    if d is False:
        return b
    fv = None
    if cfv is not None:
        fv = _fop(lambda x, y: _np.where(cfv, x, y), a, b)
    lin = None
    la, lb = Lin.of(a), Lin.of(b)
    if la is not None and lb is not None and la.a and la.a.keys() == lb.a.keys() and \
            all((la.a[k] - lb.a[k]).is_zero() for k in la.a):
        dc = la.c - lb.c
        kk = dc.pi_rational()
        if kk is not None and kk % 2 == 0:
            lin = la          # the two branches are the same angle modulo a full turn: trig functions cannot tell them apart
    return SR(z3.If(cond, lift(a), lift(b)), lin, None, fv)


def sym_clip(x, lo, hi):
    if not (isinstance(x, SR) or isinstance(lo, SR) or isinstance(hi, SR)):
        return min(max(x, lo), hi)
    t, l, h = lift(x), lift(lo), lift(hi)
    return lazy_if(t < l, lo, lazy_if(t > h, hi, x, _fop(_np.greater, x, hi)), _fop(_np.less, x, lo))


def sym_min(a, b):
    if not (isinstance(a, SR) or isinstance(b, SR)):
        return min(a, b)
    return lazy_if(lift(a) <= lift(b), a, b, _fop(_np.less_equal, a, b))


def sym_max(a, b):
    if not (isinstance(a, SR) or isinstance(b, SR)):
        return max(a, b)
    return lazy_if(lift(a) >= lift(b), a, b, _fop(_np.greater_equal, a, b))


def isclose_term(a, b, rtol=1e-5, atol=1e-8):
    ta, tb = lift(a), lift(b)
    d = ta - tb
    ad = z3.If(d >= 0, d, -d)
    ab = z3.If(tb >= 0, tb, -tb)
    return ad <= lift(atol) + lift(rtol) * ab


def sym_isclose(a, b, rtol=1e-5, atol=1e-8):
    if not (isinstance(a, SR) or isinstance(b, SR)):
        return bool(_np.isclose(a, b, rtol=rtol, atol=atol))
    return SymBool(isclose_term(a, b, rtol, atol), _fop(lambda x, y: _np.abs(x - y) <= atol + rtol * _np.abs(y), a, b))


# ----------------------------------------------------------------------------------------------
# Path exploration
# ----------------------------------------------------------------------------------------------
class PathResult:
    __slots__ = ('schedule', 'domain', 'pc', 'defs', 'assumes', 'oblig', 'outcome', 'value', 'checks',
                 'events', 'recipes', 'uses_pi', 'inputs', 'observed', 'atoms', 'units', 'deferred')


def explore(fn, max_paths=64, on_path=None, roots=None):
    """DFS over branch decisions. fn() is re-executed per path. Returns (paths, truncated).
    roots: schedule prefixes to start from (second-round exploration of deferred sides)"""
    # stack entries: (schedule prefix, seed environment or None). The seed environment (a solver model of the side being
    # explored) provides the shadow samples below a deferred side.
    stack = [(list(r['prefix']), r.get('env')) if isinstance(r, dict) else (list(r), None) for r in roots] if roots else [([], None)]
    out = []
    truncated = False
    restarts = 0
    while stack:
        if len(out) >= max_paths:
            truncated = True
            break
        sched, seed_env = stack.pop()
        CTX.seed_env = seed_env
        CTX.reset_path(sched)
        CTX.mode = 'sym'
        try:
            res = ('ok', fn())
        except Abort:
            continue
        except Restart:
            restarts += 1
            if restarts > 200:
                raise SymnpUnsupported("too many trig restarts")
            stack.append((sched, seed_env))
            continue
        except SymnpUnsupported as e:
            res = ('unsupported', e)
        except Exception as e:   # the code's own exception on this path
            res = ('exc', e)
            try:
                tb_ = e.__traceback__
                while tb_ is not None and tb_.tb_next is not None:
                    tb_ = tb_.tb_next
                if tb_ is not None and '/symnp/' in tb_.tb_frame.f_code.co_filename.replace(os.sep, '/'):
                    # raised inside the engine itself (not by the code under test, not by NumPy): an engine failure,
                    # reported as undecided, never as the code's exception
                    res = ('unsupported', SymnpUnsupported(f"engine error {type(e).__name__}: {e} in {os.path.basename(tb_.tb_frame.f_code.co_filename)}:{tb_.tb_lineno}"))
            except Exception:
                pass
            if os.environ.get('SYMNP_TB'):
                import traceback
                sys.stderr.write(f"[symnp exc] {type(e).__name__}: {e}\n{traceback.format_exc(limit=-6)}\n")
        finally:
            CTX.mode = 'off'
        full = list(CTX.schedule)
        p = PathResult()
        p.schedule = full
        p.domain, p.pc, p.defs, p.assumes, p.oblig = list(CTX.domain), list(CTX.pc), list(CTX.defs), list(CTX.assumes), list(CTX.oblig)
        p.outcome, p.value = res
        p.events = list(CTX.events)
        p.recipes = dict(CTX.recipes)
        p.uses_pi = CTX.uses_pi
        p.inputs = dict(CTX.inputs)
        p.atoms = {k: dict(rng=v['rng'], unit=v['unit'], var=v['var']) for k, v in CTX.atoms.items()}
        p.units = dict(CTX.units)
        p.deferred = [d for d in CTX.deferred if len(d['prefix']) > len(sched)]   # sides decided on this run only
        out.append(p)
        if on_path is not None:
            on_path(p)
        for i in range(len(sched), len(full)):
            d, forced = full[i]
            if not forced:
                stack.append((full[:i] + [(not d, True)], seed_env))
    return out, truncated


def exact_samples(name, fv, lo=None, hi=None):
    """quantise shadow samples to short rationals inside [lo, hi], remember them for pinned-sample queries; -> float array"""
    ex = []
    for x in fv:
        x = builtins.float(x)
        if not _np.isfinite(x):
            ex.append(None)
            continue
        if abs(x) >= 64:
            e = F(int(builtins.float(f"{x:.3g}")))
        elif abs(x) >= 1e-3:
            e = F(int(round(x * 4096)), 4096)
        else:
            e = F(x).limit_denominator(10 ** 12)
        if lo is not None and e < F(lo):
            e = F(lo)
        if hi is not None and e > F(hi):
            e = F(hi)
        ex.append(e)
    CTX.exact[name] = ex
    return _np.array([builtins.float(e) if e is not None else _np.nan for e in ex])


def sphere_samples(names, g):
    """rational points on the unit sphere near the columns of g (n x K, unit columns): inverse stereographic projection
    of a coarse rational vector; remembered per coordinate name; -> float array n x K"""
    n, K = g.shape
    out = _np.empty((n, K))
    exs = [[None] * K for _ in range(n)]
    for k in range(K):
        x = g[:, k]
        if not _np.all(_np.isfinite(x)):
            out[:, k] = x
            continue
        # project from the pole opposite to the largest coordinate (keeps t small)
        j = int(_np.argmax(_np.abs(x)))
        sgn = 1 if x[j] >= 0 else -1
        den = 1.0 + abs(x[j])
        t = [F(int(round(builtins.float(x[i]) / den * 64)), 64) for i in range(n) if i != j]
        tt = sum(a * a for a in t)
        xj = sgn * (1 - tt) / (1 + tt)
        rest = [2 * a / (1 + tt) for a in t]
        vals = rest[:j] + [xj] + rest[j:]
        for i in range(n):
            exs[i][k] = vals[i]
            out[i, k] = builtins.float(vals[i])
    for i, nm in enumerate(names):
        CTX.exact[nm] = exs[i]
    return out


def seeded_samples(name, default):
    """shadow samples of an input: random (default) or, below a deferred side, copies of the solver model's value
    (half of them slightly perturbed)"""
    env = getattr(CTX, 'seed_env', None)
    if env and name in env:
        try:
            v = builtins.float(F(env[name])) if isinstance(env[name], str) else builtins.float(env[name])
        except Exception:
            return default
        out = _np.full(K_SAMPLES, v)
        out[K_SAMPLES // 2:] += SAMPLE_RNG.normal(0, 1e-3, K_SAMPLES - K_SAMPLES // 2) * (1 + abs(v))
        return out
    return default


_VARS_CACHE = {}


def vars_of(t):
    """frozenset of the names of the uninterpreted constants of a term (cached by AST id; the term is kept alive)"""
    key = t.get_id()
    hit = _VARS_CACHE.get(key)
    if hit is not None:
        return hit[0]
    out = set()
    seen = set()
    stack = [t]
    n = 0
    while stack:
        x = stack.pop()
        i = x.get_id()
        if i in seen:
            continue
        seen.add(i)
        n += 1
        if n > 20000:
            out.add('<too-large>')
            break
        if z3.is_app(x):
            if x.num_args() == 0:
                if x.decl().kind() == z3.Z3_OP_UNINTERPRETED:
                    out.add(x.decl().name())
            else:
                stack.extend(x.children())
    fs = frozenset(out)
    if len(_VARS_CACHE) > 200000:
        _VARS_CACHE.clear()
    _VARS_CACHE[key] = (fs, t)
    return fs


def choose(n, tag='c'):
    """nondeterministic choice in range(n): forks the path (each alternative is explored)"""
    CTX.fresh += 1
    k = CTX.fresh
    for i in range(n - 1):
        b = z3.Bool(f"choice_{tag}_{k}_{i}")
        keep = CTX.mask.copy()
        keep_opt = CTX.mask_opt.copy()
        r = CTX.branch(b)
        CTX.mask = keep                     # a free choice does not constrain the inputs
        CTX.mask_opt = keep_opt
        if r:
            return i
    return n - 1


def fresh_real(pfx='f', recipe=None):
    return SR(CTX.newvar(pfx, recipe))       # no shadow: conditions on it fall back to the solver


def fresh_sign(pfx='sgn'):
    """fresh symbol s with s in {-1, +1}"""
    v = CTX.newvar(pfx)
    CTX.defs.append(v * v == 1)
    return SR(v)
