#!/usr/bin/env python3
"""markdown table of the seeded changes and what the checks did with them (from seeded/*/meta.json)"""
import glob, json, os, re
rows = []
try:
    FIRST = json.load(open(os.path.join(os.path.dirname(__file__), '..', 'seeded', 'ROUND2_FIRST.json')))['first_sight']
except Exception:
    FIRST = {}
for f in sorted(glob.glob(os.path.join(os.path.dirname(__file__), '..', 'seeded', '*', 'meta.json'))):
    m = json.load(open(f))
    r = m.get('result', {})
    needs = ' '.join(m.get('needs', '').split())
    needs = re.sub(r'^(Mutation|File/function)[^:]*:\s*', '', needs)
    what = needs[:150] + ('…' if len(needs) > 150 else '')
    if not r.get('confirmed'):
        res = 'not confirmed as breaking (dropped)'
    elif r.get('detected'):
        v = r.get('violations') or []
        res = 'caught: ' + (v[0].split(' :: ')[-1][:70] if v else 'VIOLATION')
    else:
        res = '**missed**' + (f" (exit {r.get('check_exit')})" if r.get('check_exit') not in (0, None) else '')
    if m['id'] in FIRST and r.get('detected') and not FIRST[m['id']]:
        res += ' (only after a harness extension)'
    rows.append((m['id'], what.replace('|', '/'), res.replace('|', '/'), r.get('wall_s')))
print('| seed | change (abridged) | quick check | wall s |\n|---|---|---|---|')
for r in rows:
    print(f'| {r[0]} | {r[1]} | {r[2]} | {r[3]} |')
