"""symnp runner: explores one harness symbolically in a worker process, discharges its obligations,
escalates undecided ones to the portfolio, replays counterexamples on the unpatched code."""
import builtins
import hashlib
import importlib
import inspect
import json
import multiprocessing as mp
import os
import random
import sys
import tempfile
import time
import traceback
from fractions import Fraction as F

import numpy as _np
import z3

from . import core, trig, proxy, solve, algcert, sqabs
from . import harness as hz
from .core import CTX, SR, SymnpUnsupported, explore
from .harness import H, REGISTRY, run_conc, classify_exception

VERIF_DIR = os.path.dirname(os.path.dirname(os.path.abspath(__file__)))


def load_property_module(pid):
    if VERIF_DIR not in sys.path:
        sys.path.insert(0, VERIF_DIR)
    repo = os.environ.get('SYMNP_REPO', '/repo')
    if repo not in sys.path:
        sys.path.insert(0, repo)
    return importlib.import_module(f"harness.{pid}")


def _constraints(p, snap, with_assumes=True):
    d, c, f, a = snap
    out = p.domain[:d] + p.pc[:c] + p.defs[:f]
    if with_assumes:
        out += p.assumes[:a]
    if p.uses_pi:
        out = core.PI_BOUNDS + out
    return out


def _envjson(env):
    return {k: (str(v) if isinstance(v, F) else v) for k, v in (env or {}).items()}


def _reach_ok(r):
    return r is not None and r.get('status') == 'sat'


def angle_info(p):
    """input angle atoms whose value must be derived from their (cos, sin) unit variables"""
    info = {}
    for name, at in p.atoms.items():
        if name in p.inputs:
            best = None
            for (n, md), (c, s_) in p.units.items():
                if n == name and (best is None or md > best[0]):
                    best = (md, str(c), str(s_))
            if best is not None:
                info[name] = dict(md=best[0], c=best[1], s=best[2], unit=at['unit'])
    return info


def fix_angles(env, ainfo):
    """the angle variable is only loosely tied to its (c, s) pair in the encoding: recompute it from the pair"""
    import math
    for name, d in (ainfo or {}).items():
        if d['c'] in env and d['s'] in env:
            a = d['md'] * math.atan2(builtins.float(F(env[d['s']]) if isinstance(env[d['s']], str) else env[d['s']]),
                                     builtins.float(F(env[d['c']]) if isinstance(env[d['c']], str) else env[d['c']]))
            env[name] = a if d['unit'] == 'rad' else a * 180.0 / math.pi
    return env


def want_vars(p):
    w = dict(p.inputs)
    for name, d in angle_info(p).items():
        w[d['c']] = z3.Real(d['c'])
        w[d['s']] = z3.Real(d['s'])
    return w


PIN_SAMPLES = 4
PIN_EARLY = 2
PIN_MS = 800


def _pinned_search(p, o, cons, max_k, skip=0):
    """model search guided by the shadow samples: the inputs are pinned to the exact rational value of a sample that followed
    this path; the solver evaluates the remaining (auxiliary) symbols. -> (status, env, secs, tried)"""
    t0 = time.time()
    tried = 0
    for k in _np.nonzero(o['mask'])[0][skip:max_k]:
        pins = []
        for n, v in p.inputs.items():
            ex = o['exact'].get(n)
            if ex is not None and ex[k] is not None and v.sort() == z3.RealSort():
                pins.append(v == z3.RealVal(str(ex[k])))
        if not pins:
            break
        tried += 1
        try:
            pc_ = solve.pin(pins + list(cons))
        except Exception:
            pc_ = pins + list(cons)
        stp, envp, _ = solve.solve_inproc(pc_, PIN_MS, want_vars(p))
        if stp == 'sat':
            return 'sat', _envjson(fix_angles(envp, angle_info(p))), time.time() - t0, tried
    return 'unknown', None, time.time() - t0, tried


def _fidelity_witness(p, hh, rng):
    full = (len(p.domain), len(p.pc), len(p.defs), len(p.assumes))
    base = _constraints(p, full)
    for attempt in range(3):
        s = z3.Solver()
        s.set('timeout', 3000)
        for c in base:
            s.add(c)
        if attempt < 2:
            for n, v in p.inputs.items():
                if v.sort() != z3.RealSort():
                    continue
                t = rng.uniform(-1, 1) * (1.0 if attempt == 0 else 0.5)
                w = 0.35 if attempt == 0 else 0.6
                s.add(v >= z3.RealVal(repr(round(t - w, 3))), v <= z3.RealVal(repr(round(t + w, 3))))
        if solve.guarded_check(s, 3000) != z3.sat:
            continue
        m = s.model()
        env = {}
        for n, v in want_vars(p).items():
            val = solve.model_value(m, v)
            if val is not None:
                env[n] = val
        env = fix_angles(env, angle_info(p))
        outs = {}
        try:
            for n, arr in hh.outs.items():
                vals = []
                for e in _np.asarray(arr, dtype=object).ravel():
                    if isinstance(e, core.SymBool):
                        vals.append(None)
                        continue
                    if isinstance(e, core.SR) and any(v.startswith(('ang!', 'c_opq_', 's_opq_', 'rng_')) for v in core.vars_of(e.t)):
                        vals.append(None)       # depends on an inverse-trig value symbol (loosely tied) or on an RNG draw (not imposable)
                        continue
                    val = solve.model_value(m, core.lift(e))
                    vals.append(None if val is None else builtins.float(val))
                outs[n] = vals
        except BaseException:
            return None
        return dict(env=_envjson(env), outs=outs, generic=attempt < 2)
    return None


def fidelity_compare(pid, hname, fw, tier='quick', tol=1e-6):
    """run the unpatched code on the witness inputs; compare every observed output with the value its symbolic term
    takes under the same model. -> (n_compared, n_mismatch, detail)"""
    load_property_module(pid)
    h = REGISTRY[hname]
    res = run_conc(h, env_floats(fw['env']), tier=tier)
    if res['assume_failed']:
        return 0, 0, 'witness not in the float domain'
    n = bad = 0
    detail = []
    for name, vals in fw['outs'].items():
        if name not in res['outs']:
            continue
        conc = _np.asarray(res['outs'][name], dtype=builtins.float).ravel()
        if len(conc) != len(vals):
            bad += 1
            detail.append(f"{name}: size {len(conc)} vs {len(vals)}")
            continue
        sgn = 1.0
        if name in res.get('mod_sign', ()):
            d1 = sum(abs(a - b) for a, b in zip(conc, vals) if b is not None)
            d2 = sum(abs(a + b) for a, b in zip(conc, vals) if b is not None)
            sgn = 1.0 if d1 <= d2 else -1.0
        for a, b in zip(conc, vals):
            if b is None:
                continue
            n += 1
            if not (abs(a - sgn * b) <= tol * (1 + abs(b))):
                bad += 1
                if len(detail) < 5:
                    detail.append(f"{name}: code={a!r} term={b!r}")
    return n, bad, detail


def _sym_worker(pid, hname, tier, conn, quick_ms, roots=None):
    """runs in a forked child: explore + in-process solving. Sends a picklable result dict."""
    t0 = time.time()
    result = dict(harness=hname, paths=0, truncated=False, records=[], unsupported=[], events=[], stats={},
                  reach=None, error=None, notes=[], path_outcomes=[], fidelity=[])
    rng = random.Random(int(os.environ.get('VERIF_SEED', '0') or 0) * 7919 + 13)
    try:
        if os.environ.get('SYMNP_TRACE'):
            import faulthandler
            faulthandler.dump_traceback_later(int(os.environ['SYMNP_TRACE']), repeat=True, file=open(f"/tmp/trace_{hname.replace('/', '_')}.txt", 'w'))
        load_property_module(pid)
        h = REGISTRY[hname]
        proxy.patch()
        trig.reset_granularity()
        CTX.max_decisions = h.max_decisions
        cur = [None]

        def fn():
            proxy.STUBS.reset()
            hh = H('sym', tier=tier)
            cur[0] = hh
            h.fn(hh)
            return hh

        holders = []

        def on_path(p):
            p.value_h = cur[0]

        core.PathResult.__slots__  # noqa
        max_paths = h.max_paths if tier == 'quick' else h.max_paths * 4
        paths, truncated = explore(fn, max_paths=max_paths, on_path=lambda p: holders.append(cur[0]), roots=roots)
        result['paths'] = len(paths)
        result['truncated'] = truncated
        tmo = quick_ms if quick_ms else h.timeout_ms
        reach = None
        for pi, (p, hh) in enumerate(zip(paths, holders)):
            obls = []
            outcome = p.outcome
            if outcome == 'exc':
                cls = classify_exception(p.value)
                if cls == 'unsupported':
                    outcome = 'unsupported'
                elif isinstance(p.value, h.allowed_exc):
                    outcome = 'raises-allowed'
                else:
                    obls.append(dict(name=f"no-exception({type(p.value).__name__}: {str(p.value)[:80]})", kind='exception',
                                     bad=z3.BoolVal(True), snap=(len(p.domain), len(p.pc), len(p.defs), len(p.assumes))))
            if outcome == 'unsupported':
                result['unsupported'].append(dict(path=pi, reason=str(p.value)[:300]))
            result['path_outcomes'].append(outcome if outcome != 'exc' else f"exc:{type(p.value).__name__}")
            if hh is not None:
                result['notes'] = list(dict.fromkeys(result['notes'] + hh.notes))
                if hh.definedness == 'check':
                    for o in p.oblig:
                        obls.append(dict(name=f"defined:{o['kind']}", kind='definedness', bad=o['bad'], snap=o['snap']))
                for c in hh.checks:
                    if c.get('trivial'):
                        result['records'].append(dict(path=pi, name=c['name'], kind='check', status='unsat', by='simplifier',
                                                      secs=0.0))
                    else:
                        obls.append(dict(name=c['name'], kind='check', bad=c['bad'], snap=c['snap'], mask=c.get('mask'), exact=c.get('exact'), cands=c.get('cands')))
            for ev in p.events:
                result['events'].append(ev)
            # reachability witness
            if reach is None or reach.get('status') != 'sat':
                st, env, dt = solve.solve_inproc(_constraints(p, (len(p.domain), len(p.pc), len(p.defs), len(p.assumes))),
                                                 max(tmo, 5000), want_vars(p))
                if st == 'sat':
                    reach = dict(path=pi, status='sat', env=_envjson(fix_angles(env, angle_info(p))))
                elif st == 'unknown' or reach is None:
                    reach = dict(path=pi, status=st if reach is None or st == 'unknown' else reach['status'])
            # deferred branch sides (taken on sample evidence only): "this side is infeasible" is an obligation
            for dsd in p.deferred:
                cons = _constraints(p, dsd['snap']) + [dsd['bad']]
                st, env, dt = solve.solve_inproc(cons, 300, want_vars(p))
                rec = dict(path=pi, name='unexplored branch side is infeasible', kind='side', status=st, by='z3-5.1-inproc',
                           secs=round(dt, 3), prefix=[[bool(a), bool(b)] for a, b in dsd['prefix']])
                if st == 'sat':
                    rec['env'] = _envjson(fix_angles(env, angle_info(p)))
                if st == 'unknown':
                    rec['smt2'] = solve.to_smt2(cons)
                    rec['vars'] = list(want_vars(p))
                    rec['angles'] = angle_info(p)
                result['records'].append(rec)
            # fidelity witness: a generic model of this path and the value of every observed output term under it
            if hh is not None and hh.outs and len(result['fidelity']) < 4 and outcome == 'ok':
                fw = _fidelity_witness(p, hh, rng)
                if fw is not None:
                    fw['path'] = pi
                    result['fidelity'].append(fw)
            for o in obls:
                base = _constraints(p, o['snap'])
                if o['kind'] == 'exception' or z3.is_true(z3.simplify(o['bad'])):
                    # "this path is reachable": the inputs only have to satisfy the domain and the branch conditions; the
                    # definitions of auxiliary symbols are dropped (a model is replayed on the real code anyway)
                    d_, c_, f_, a_ = o['snap']
                    light = p.domain[:d_] + p.pc[:c_]
                    # first with the definitions (a model that respects sqrt / trig symbols replays), then without
                    stf, envf, dtf = solve.solve_inproc(base + [o['bad']], tmo, want_vars(p))
                    st, env, dt = solve.solve_inproc(light, tmo, want_vars(p))
                    if stf == 'sat':
                        rec = dict(path=pi, name=o['name'], kind=o['kind'], status='sat', by='z3-5.1-inproc',
                                   secs=round(dtf + dt, 3), env=_envjson(fix_angles(envf, angle_info(p))))
                        if st == 'sat':
                            rec['alt_envs'] = [_envjson(fix_angles(env, angle_info(p)))]
                        result['records'].append(rec)
                        continue
                    if st == 'sat':
                        result['records'].append(dict(path=pi, name=o['name'], kind=o['kind'], status='sat', by='z3-5.1-inproc',
                                                      secs=round(dt, 3), env=_envjson(fix_angles(env, angle_info(p)))))
                        continue
                cons = base + [o['bad']]
                if o['kind'] == 'check':
                    tc = time.time()
                    ok, info = algcert.try_certify(base, o['bad'], tag=('path', pi), budget_s=min(h.algcert_s, 3.0))
                    if not ok and h.algcert_s > 3.0:
                        # before the long certificate search: is there a counterexample at one of the shadow samples?
                        if o.get('mask') is not None and o.get('exact'):
                            stp, envp, dtp, tried = _pinned_search(p, o, cons, PIN_EARLY)
                            if stp == 'sat':
                                result['records'].append(dict(path=pi, name=o['name'], kind=o['kind'], status='sat', env=envp,
                                                              by='z3-5.1-inproc (inputs pinned to a shadow sample)',
                                                              secs=round(time.time() - tc, 3), alt_envs=[]))
                                continue
                        ok, info = algcert.try_certify(base, o['bad'], tag=('path', pi), budget_s=h.algcert_s)
                    if ok:
                        result['records'].append(dict(path=pi, name=o['name'], kind=o['kind'], status='unsat',
                                                      by='z3-5.1 (algebraic certificate)', secs=round(time.time() - tc, 3)))
                        continue
                tq = time.time()
                if o['kind'] != 'check' or algcert.split_equality(o['bad']) is None:
                    if sqabs.try_refute(cons):
                        result['records'].append(dict(path=pi, name=o['name'], kind=o['kind'], status='unsat',
                                                      by='z3-5.1 (square abstraction)', secs=round(time.time() - tq, 3)))
                        continue
                try:
                    cons = solve.pin(cons)
                except Exception:
                    pass
                st, env, dt = solve.solve_inproc(cons, tmo, want_vars(p))
                by = 'z3-5.1-inproc'
                rec = dict(path=pi, name=o['name'], kind=o['kind'], status=st, by=by, secs=round(dt, 3))
                if st == 'sat':
                    rec['env'] = _envjson(fix_angles(env, angle_info(p)))
                    # alternative models away from the special values solvers like (0, +-1, +-1/2): under-constrained
                    # symbols (opaque angles, contracts) make the first model a poor replay candidate
                    alts = []
                    extra = []
                    for n, v in p.inputs.items():
                        if v.sort() == z3.RealSort():
                            extra += [v != 0, v != 1, v != -1, 2 * v != 1, 2 * v != -1]
                            if n in env:
                                extra.append(v != z3.RealVal(str(env[n])))
                    st2, env2, _ = solve.solve_inproc(cons + extra, tmo, want_vars(p))
                    if st2 == 'sat':
                        alts.append(_envjson(fix_angles(env2, angle_info(p))))
                    ab = algcert.split_equality(o['bad']) if o['kind'] == 'check' else None
                    if ab is not None:
                        # a counterexample with a margin well above the replay tolerance
                        x_, y_ = ab
                        tolr = z3.RealVal(str(getattr(h, 'conc_tol', 1e-6) * 100))
                        ay_ = z3.If(y_ >= 0, y_, -y_)
                        robust = z3.Or(x_ - y_ > tolr * (1 + ay_), y_ - x_ > tolr * (1 + ay_))
                        st3, env3, _ = solve.solve_inproc(base + [robust], max(tmo, 2000), want_vars(p))
                        if st3 == 'sat':
                            alts.insert(0, _envjson(fix_angles(env3, angle_info(p))))
                    rec['alt_envs'] = alts
                if st == 'unknown' and o.get('mask') is not None and o.get('exact'):
                    stp, envp, dtp, tried = _pinned_search(p, o, cons, PIN_SAMPLES, skip=PIN_EARLY)
                    dt += dtp
                    if stp == 'sat':
                        st = 'sat'
                        rec.update(status='sat', by='z3-5.1-inproc (inputs pinned to a shadow sample)', secs=round(dt, 3),
                                   env=envp, alt_envs=[])
                    rec['pinned_tried'] = tried
                if st == 'unknown' and o.get('cands'):
                    # the solvers gave up, but the proposition fails by a wide margin at a shadow sample that followed this
                    # path: candidate counterexamples for the replay on the real code (which alone decides a violation)
                    rec['cand_envs'] = [_envjson(c_) for c_ in o['cands']]
                if st == 'unknown':
                    rec['smt2'] = solve.to_smt2(cons)
                    rec['vars'] = list(want_vars(p))
                    rec['angles'] = angle_info(p)
                    if os.environ.get('SYMNP_DUMP'):
                        open(os.path.join(os.environ['SYMNP_DUMP'], f"{hname.replace('/', '_')}_{pi}_{len(result['records'])}.smt2"), 'w').write(rec['smt2'])
                result['records'].append(rec)
        result['reach'] = reach
        result['stats'] = dict(CTX.stats)
        result['stats']['algcert'] = dict(algcert.STATS)
    except BaseException as e:   # engine failure
        result['error'] = f"{type(e).__name__}: {e}\n{traceback.format_exc(limit=8)}"
    result['wall'] = round(time.time() - t0, 2)
    try:
        conn.send(result)
    except Exception as e:
        conn.send(dict(harness=hname, error=f"cannot send result: {e}", records=[], paths=0, unsupported=[], events=[],
                       stats={}, reach=None, notes=[], truncated=False, wall=0, path_outcomes=[], fidelity=[]))
    conn.close()


def run_workers(pid, names, tier, jobs, wall_limit, quick_ms=None, log=print, roots=None):
    """run sym workers with bounded parallelism; kill the ones exceeding wall_limit.
    roots: optional {harness: [schedule prefixes]} (second-round exploration)"""
    ctx = mp.get_context('fork')
    pending = list(names)
    roots = roots or {}
    running = {}
    results = {}
    while pending or running:
        while pending and len(running) < jobs:
            n = pending.pop(0)
            a, b = ctx.Pipe(duplex=False)
            pr = ctx.Process(target=_sym_worker, args=(pid, n, tier, b, quick_ms, roots.get(n)), daemon=True)
            pr.start()
            b.close()
            running[n] = (pr, a, time.time())
        done = []
        for n, (pr, a, t0) in running.items():
            if a.poll():
                try:
                    results[n] = a.recv()
                except EOFError:
                    results[n] = dict(harness=n, error='worker died', records=[], paths=0, unsupported=[], events=[], stats={},
                                      reach=None, notes=[], truncated=False, wall=time.time() - t0, path_outcomes=[])
                pr.join(timeout=5)
                done.append(n)
            elif not pr.is_alive():
                results[n] = dict(harness=n, error='worker died without result', records=[], paths=0, unsupported=[], events=[],
                                  stats={}, reach=None, notes=[], truncated=False, wall=time.time() - t0, path_outcomes=[])
                done.append(n)
            elif time.time() - t0 > wall_limit:
                pr.kill()
                pr.join(timeout=5)
                results[n] = dict(harness=n, error=f'engine wall limit {wall_limit}s exceeded (undecided)', records=[], paths=0,
                                  unsupported=[], events=[], stats={}, reach=None, notes=[], truncated=False,
                                  wall=time.time() - t0, path_outcomes=[], timeout=True)
                done.append(n)
        for n in done:
            running.pop(n)
            log(f"  [{n}] explored: paths={results[n].get('paths')} records={len(results[n].get('records', []))} "
                f"wall={results[n].get('wall')}s" + (f" ERROR {results[n]['error'][:200]}" if results[n].get('error') else ''))
        if not done:
            time.sleep(0.05)
    return results


def escalate(results, timeout_s, jobs, log=print, total_s=None):
    """portfolio pass over the obligations the quick in-process pass left undecided. total_s: wall budget of the whole pass;
    obligations not reached within it stay unknown (reported as undecided)"""
    import concurrent.futures as cf
    deadline = None if total_s is None else time.time() + total_s
    todo = []
    for n, r in results.items():
        for rec in r['records']:
            if rec['status'] == 'unknown' and 'smt2' in rec:
                todo.append(rec)
    if not todo:
        return 0
    workdir = tempfile.mkdtemp(prefix='symnp_')
    per = 2

    def one(rec):
        if deadline is not None and time.time() > deadline:
            rec['by'] = 'portfolio (not reached within the escalation budget)'
            return rec
        st, env, by, dt, detail = solve.portfolio(rec['smt2'], timeout_s, rec.get('vars'), workdir=workdir)
        rec['status'] = st
        rec['by'] = by or 'portfolio'
        rec['secs'] = round(rec.get('secs', 0) + dt, 3)
        rec['portfolio'] = detail
        if st == 'sat':
            rec['env'] = _envjson(fix_angles(env or {}, rec.get('angles')))
        if st != 'unknown':
            rec.pop('smt2', None)
        return rec
    try:
        with cf.ThreadPoolExecutor(max_workers=max(1, jobs // per)) as ex:
            list(ex.map(one, todo))
    finally:
        try:
            for f in os.listdir(workdir):
                os.unlink(os.path.join(workdir, f))
            os.rmdir(workdir)
        except OSError:
            pass
    return len(todo)


def env_floats(env):
    out = {}
    for k, v in (env or {}).items():
        try:
            out[k] = builtins.float(F(v)) if isinstance(v, str) else builtins.float(v)
        except Exception:
            pass
    return out


def replay(pid, hname, env, tier='quick', replay_kf=None):
    """concrete replay of a model on the unpatched code. -> (reproduces, detail)"""
    load_property_module(pid)
    h = REGISTRY[hname]
    res = run_conc(h, env_floats(env), tier=tier, replay_kf=replay_kf)
    detail = dict(failed=res['failed'], nonfinite=res['nonfinite'], assume_failed=[str(a) for a in res['assume_failed']],
                  exc=None if res['exc'] is None else f"{type(res['exc']).__name__}: {res['exc']}",
                  inputs=res['sampled'])
    if res['assume_failed']:
        return False, detail
    exc = res['exc']
    bad_exc = exc is not None and not isinstance(exc, h.allowed_exc)
    rep = bool(res['failed'] or res['nonfinite'] or bad_exc)
    return rep, detail


def source_hashes(functions):
    """qualified names -> sha1 of current source (shows the encoding is regenerated from /repo)"""
    out = {}
    for q in functions:
        try:
            mod, _, attr = q.partition(':')
            m = importlib.import_module(mod)
            obj = m
            for part in attr.split('.'):
                obj = getattr(obj, part)
            if isinstance(obj, property):
                obj = obj.fget
            src = inspect.getsource(obj)
            out[q] = hashlib.sha1(src.encode()).hexdigest()[:12]
        except Exception as e:
            out[q] = f"unavailable ({type(e).__name__})"
    return out
