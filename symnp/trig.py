"""symnp trig layer: cos/sin of linear angle forms as polynomials in one (c, s) pair per atom at its
finest needed granularity; inverse trig functions as lazy angle atoms."""
import builtins
import math
from fractions import Fraction as F

import numpy as _np
import z3

from . import core
from .core import (CTX, SR, SymBool, Lin, PiPoly, lift, Restart, SymnpUnsupported, PI, _const_of)

MAXD = {}          # atom name -> finest granularity discovered so far (persists across restarts)


def reset_granularity():
    MAXD.clear()


def _pi():
    CTX.uses_pi = True
    return PI


def new_angle(name, rng='pm_pi', unit='rad', var=None, lazy=None, fv=None, lo=None, hi=None):
    """declare an angle atom. rng: 'pm_pi' (-pi,pi], '0_pi' [0,pi], 'pm_halfpi' [-pi/2,pi/2], 'free'.
    lo/hi: tighter declared bounds (in the atom's unit); they are also imposed on the (cos, sin) pair"""
    v = var if var is not None else z3.Real(name)
    k = 1.0 if unit == 'rad' else math.pi / 180.0
    CTX.atoms[name] = dict(var=v, rng=rng, unit=unit, lazy=lazy, linked=False,
                           lo=None if lo is None else lo * k, hi=None if hi is None else hi * k)
    x = SR(v, Lin({name: PiPoly({0: F(1)})}, PiPoly()), None, fv)
    if unit == 'rad':
        pi = _pi()
        if rng == 'pm_pi':
            CTX.defs += [v > -pi, v <= pi]
        elif rng == '0_pi':
            CTX.defs += [v >= 0, v <= pi]
        elif rng == 'pm_halfpi':
            CTX.defs += [v >= -pi / 2, v <= pi / 2]
    else:
        if rng == 'pm_pi':
            CTX.defs += [v > -180, v <= 180]
        elif rng == '0_pi':
            CTX.defs += [v >= 0, v <= 180]
        elif rng == 'pm_halfpi':
            CTX.defs += [v >= -90, v <= 90]
    return x


def cs_multiple(c, s, k):
    """cos(k u), sin(k u) from (cos u, sin u); integer k"""
    if k < 0:
        ck, sk = cs_multiple(c, s, -k)
        return ck, -sk
    ck, sk = None, None
    # binary method to keep terms small
    rc, rs = z3.RealVal(1), z3.RealVal(0)
    bc, bs = c, s
    first = True
    while k:
        if k & 1:
            if first:
                rc, rs = bc, bs
                first = False
            else:
                rc, rs = rc * bc - rs * bs, rs * bc + rc * bs
        k >>= 1
        if k:
            bc, bs = bc * bc - bs * bs, 2 * bc * bs
    return rc, rs


def unit(name, D):
    """(cos, sin) of atom/D (atom measured in radians) as z3 terms"""
    md = MAXD.get(name, 1)
    if md % D != 0:
        MAXD[name] = md * D // math.gcd(md, D)
        raise Restart()
    at = CTX.atoms[name]
    key = (name, md)
    if key not in CTX.units:
        c = z3.Real(f"c_{name}_{md}")
        s = z3.Real(f"s_{name}_{md}")
        CTX.units[key] = (c, s)
        CTX.recipes[str(c)] = ('cos_atom', name, md)
        CTX.recipes[str(s)] = ('sin_atom', name, md)
        CTX.defs.append(c * c + s * s == 1)
        rng = at['rng']
        if name not in ('@pi',) and at['rng'] != 'meta':
            _pool_nonneg(name, md, c, s)
        if name == '@pi':
            if md == 1:
                CTX.defs += [c == -1, s == 0]
            elif md == 2:
                CTX.defs += [c == 0, s == 1]
            else:
                ck, sk = cs_multiple(c, s, md)
                e = z3.RealVal('1/1000000000')
                cc, ss = math.cos(math.pi / md), math.sin(math.pi / md)
                CTX.defs += [ck == -1, sk == 0, c > lift(cc) - e, c < lift(cc) + e, s > lift(ss) - e, s < lift(ss) + e]
        else:
            # range facts at this granularity
            if md >= 2:
                if rng == 'pm_pi':
                    CTX.defs += [c >= 0] if md == 2 else [c > 0]
                    if md == 2:
                        CTX.defs.append(z3.Implies(c == 0, s == 1))
                elif rng == '0_pi':
                    CTX.defs += [c >= 0, s >= 0]
                elif rng == 'pm_halfpi':
                    CTX.defs += [c > 0]
                if md > 2 and rng in ('pm_pi', '0_pi', 'pm_halfpi'):
                    # |atom/md| <= pi/md: cos >= cos(pi/md)
                    CTX.defs.append(c >= lift(math.cos(math.pi / md) - 1e-12))
            # declared bounds of the angle, imposed on the pair at this granularity (monotone pieces of sin / cos)
            full = {'pm_pi': (-math.pi, math.pi), '0_pi': (0.0, math.pi), 'pm_halfpi': (-math.pi / 2, math.pi / 2)}.get(rng)
            if full is not None and (at.get('lo') is not None or at.get('hi') is not None):
                a = (full[0] if at.get('lo') is None else max(full[0], at['lo'])) / md
                b = (full[1] if at.get('hi') is None else min(full[1], at['hi'])) / md
                d = 1e-12
                if -math.pi / 2 <= a and b <= math.pi / 2:
                    CTX.defs += [s >= lift(math.sin(a) - d), s <= lift(math.sin(b) + d)]
                if 0.0 <= a and b <= math.pi:
                    CTX.defs += [c <= lift(math.cos(a) + d), c >= lift(math.cos(b) - d)]
                if -math.pi <= a and b <= 0.0:
                    CTX.defs += [c >= lift(math.cos(a) - d), c <= lift(math.cos(b) + d)]
            c1, s1 = cs_multiple(c, s, md)
            if rng == '0_pi':
                CTX.defs.append(s1 >= 0)
            elif rng == 'pm_halfpi':
                CTX.defs.append(c1 >= 0)
            v = at['var']
            if rng in ('pm_pi', 'pm_halfpi', '0_pi'):
                # sign links between the angle value and its sine/cosine
                CTX.defs += [(v > 0) == z3.Or(s1 > 0, z3.And(s1 == 0, c1 < 0)),
                             (v == 0) == z3.And(s1 == 0, c1 > 0)]
                half = (_pi() / 2) if at['unit'] == 'rad' else z3.RealVal(90)
                CTX.defs += [z3.And(v < half, v > -half) == (c1 > 0)]
            if at['lazy'] is not None and not at['linked']:
                at['linked'] = True
                _link_lazy(name, c1, s1)
    c, s = CTX.units[key]
    return cs_multiple(c, s, md // D)


def _pool_nonneg(name, md, c, s):
    at = CTX.atoms[name]
    rng = at['rng']
    if len(CTX.pool) > 14:
        return
    if md >= 2 and rng in ('pm_pi', '0_pi', 'pm_halfpi'):
        CTX.pool.append(SR(c))
    if (md >= 1 and rng == '0_pi') or (md >= 2 and rng == '0_pi'):
        CTX.pool.append(SR(s))
    if md == 1 and rng == 'pm_halfpi':
        CTX.pool.append(SR(c))


def _link_lazy(name, c, s):
    at = CTX.atoms[name]
    kind, args = at['lazy']
    if kind == 'atan2':
        ty, tx = args
        # the hypotenuse is the same symbol as np.sqrt(x^2 + y^2) / np.linalg.norm([x, y]) computed by the code
        rr = core.sym_sqrt(SR(tx * tx + ty * ty))
        r = lift(rr)
        CTX.defs += [tx == r * c, ty == r * s, z3.Implies(r == 0, z3.And(c == 1, s == 0))]
    elif kind == 'asin':
        CTX.defs += [s == args[0], c >= 0]
    elif kind == 'acos':
        CTX.defs += [c == args[0], s >= 0]


def materialise(names):
    """create the (cos, sin) pair (and with it the sign / range / defining links) of lazy atoms whose value is compared"""
    for n in names:
        at = CTX.atoms.get(n)
        if at is not None and at['lazy'] is not None and not at['linked'] and at['rng'] in ('pm_pi', '0_pi', 'pm_halfpi'):
            unit(n, 1)


def need_value(names):
    """injectivity axioms between the value symbols of angle atoms (see core._angle_value_used)"""
    fam = ('pm_pi', '0_pi', 'pm_halfpi')
    new = [n for n in names if n in CTX.atoms and not CTX.atoms[n].get('valued') and CTX.atoms[n]['rng'] in fam
           and CTX.atoms[n]['unit'] == 'rad']
    if not new:
        return
    for n in new:
        CTX.atoms[n]['valued'] = True
    others = [n for n, at in CTX.atoms.items() if at['rng'] in fam and at['unit'] == 'rad' and n != '@pi']
    done = CTX.atoms.setdefault('@inj', dict(var=None, rng='meta', unit='rad', lazy=None, linked=False, pairs=set()))['pairs']
    for a in new:
        for b in others:
            if a == b or (a, b) in done or (b, a) in done:
                continue
            done.add((a, b))
            ca, sa = unit(a, 1)
            cb, sb = unit(b, 1)
            va, vb = CTX.atoms[a]['var'], CTX.atoms[b]['var']
            CTX.defs.append(z3.Implies(z3.And(ca == cb, sa == sb), va == vb))
            CTX.events.append(('angle-injectivity', f'{a}~{b}'))


def _ensure_pi_atom():
    if '@pi' not in CTX.atoms:
        CTX.atoms['@pi'] = dict(var=_pi(), rng='const', unit='rad', lazy=None, linked=False)


def cossin(x):
    """(cos x, sin x) as z3 terms for x an SR with a linear angle form, or a python number"""
    if not isinstance(x, SR):
        xf = builtins.float(x)
        p = PiPoly.of(xf)
        lin = Lin({}, p)
    else:
        lin = x.lin
    if lin is None:
        lin = opaque_angle(x).lin
    else:
        # atoms scaled by something that is not a rational (resp. rational multiple of pi for degree atoms): the whole
        # term becomes an opaque angle of its own
        for name, k in lin.a.items():
            at = CTX.atoms[name]
            ok = (k.rational() is not None) if at['unit'] == 'rad' else (k.pi_rational() is not None)
            if not ok and isinstance(x, SR):
                x.lin = None
                lin = opaque_angle(x).lin
                break
    C, S = z3.RealVal(1), z3.RealVal(0)

    def mul(C, S, ck, sk):
        return C * ck - S * sk, S * ck + C * sk
    first = True
    for name, k in lin.a.items():
        at = CTX.atoms[name]
        if at['unit'] == 'rad':
            kr = k.rational()
            if kr is None:
                raise SymnpUnsupported(f"angle atom {name} (radians) scaled by non-rational {k}")
        else:
            b = k.pi_rational()
            if b is None:
                raise SymnpUnsupported(f"angle atom {name} (degrees) not scaled by a rational multiple of pi: {k}")
            kr = b * 180
        c, s = unit(name, kr.denominator)
        ck, sk = cs_multiple(c, s, kr.numerator)
        if first:
            C, S = ck, sk
            first = False
        else:
            C, S = mul(C, S, ck, sk)
    c0 = lin.c
    if not c0.is_zero():
        rest = dict(c0.d)
        kpi = rest.pop(1, None)
        if kpi is not None:
            _ensure_pi_atom()
            c, s = unit('@pi', kpi.denominator)
            ck, sk = cs_multiple(c, s, kpi.numerator % (2 * kpi.denominator))
            C, S = (ck, sk) if first else mul(C, S, ck, sk)
            first = False
        if rest:
            if set(rest) != {0}:
                raise SymnpUnsupported(f"trig of constant with pi powers {rest}")
            v = builtins.float(rest[0])
            ck, sk = lift(math.cos(v)), lift(math.sin(v))
            C, S = (ck, sk) if first else mul(C, S, ck, sk)
            first = False
    return C, S


def opaque_angle(x):
    """an arbitrary symbolic term used as an angle (e.g. |w|*dt/2): it becomes an angle atom of its own, with no range
    facts; the same term (as a rational function) always maps to the same atom"""
    from . import algcert
    ck = algcert.canon_key(z3.simplify(x.t))
    key = ('opaque', ck if ck is not None else x.t.get_id())
    hit = CTX.sqrt_cache.get(key)
    if hit is not None:
        x.lin = hit[0].lin
        return hit[0]
    CTX.angle_n += 1
    name = f"opq_{CTX.angle_n}"
    CTX.atoms[name] = dict(var=x.t, rng='free', unit='rad', lazy=None, linked=False)
    x.lin = Lin({name: PiPoly({0: F(1)})}, PiPoly())
    CTX.sqrt_cache[key] = (x, x.t)
    CTX.events.append(('opaque-angle', str(x.t)[:60]))
    return x


def sym_cos(x):
    if not isinstance(x, SR):
        return math.cos(x)
    return SR(cossin(x)[0], None, None, core._fop(_np.cos, x))


def sym_sin(x):
    if not isinstance(x, SR):
        return math.sin(x)
    return SR(cossin(x)[1], None, None, core._fop(_np.sin, x))


def sym_tan(x):
    if not isinstance(x, SR):
        return math.tan(x)
    c, s = cossin(x)
    return SR(s, None, None, core._fop(_np.sin, x)) / SR(c, None, None, core._fop(_np.cos, x))


def _lazy(kind, rng, args, fv=None):
    args = tuple(z3.simplify(a) for a in args)
    from . import algcert
    ck = tuple(algcert.canon_key(a) for a in args)
    if all(k is not None for k in ck):
        key = ('lazy', kind, rng) + ck          # equal as rational functions => the same angle
    else:
        key = ('lazy', kind, rng) + tuple(a.get_id() for a in args)
    hit = CTX.sqrt_cache.get(key)
    if hit is not None:
        return hit[0]
    out = _lazy_new(kind, rng, args, fv)
    CTX.sqrt_cache[key] = (out, args)     # same function of the same arguments is the same angle
    if rng == '0_pi' and len(CTX.pool) < 8:
        CTX.pool.append(out)              # non-negative angle value: candidate for sqrt(angle^2 ...) rewrites
    return out


def _lazy_new(kind, rng, args, fv=None):
    CTX.angle_n += 1
    name = f"{kind}_{CTX.angle_n}"
    v = CTX.newvar('ang', ('angle', name))
    return new_angle(name, rng, 'rad', var=v, lazy=(kind, args), fv=fv)


def sym_arctan2(y, x):
    if not isinstance(y, SR) and not isinstance(x, SR):
        return math.atan2(y, x)
    return _lazy('atan2', 'pm_pi', (lift(y), lift(x)), core._fop(_np.arctan2, y, x))


def sym_arctan(v):
    if not isinstance(v, SR):
        return math.atan(v)
    a = _lazy('atan2', 'pm_halfpi', (lift(v), z3.RealVal(1)), core._fop(_np.arctan, v))
    return a


def sym_arcsin(v):
    if not isinstance(v, SR):
        v = builtins.float(v)
        return math.asin(v) if -1 <= v <= 1 else builtins.float('nan')
    CTX.obligation('arcsin', z3.Or(v.t > 1, v.t < -1), 'arcsin argument outside [-1, 1]')
    CTX.assumes.append(z3.And(v.t <= 1, v.t >= -1))
    core.mask_and(None if v.fv is None else (_np.abs(v.fv) <= 1))
    return _lazy('asin', 'pm_halfpi', (v.t,), core._fop(_np.arcsin, v))


def sym_arccos(v):
    if not isinstance(v, SR):
        v = builtins.float(v)
        return math.acos(v) if -1 <= v <= 1 else builtins.float('nan')
    CTX.obligation('arccos', z3.Or(v.t > 1, v.t < -1), 'arccos argument outside [-1, 1]')
    CTX.assumes.append(z3.And(v.t <= 1, v.t >= -1))
    core.mask_and(None if v.fv is None else (_np.abs(v.fv) <= 1))
    return _lazy('acos', '0_pi', (v.t,), core._fop(_np.arccos, v))


def single_lazy(a):
    """(kind, args, sign, k) if `a` is +-1 times one unlinked lazy atom (in radians or degrees)"""
    if not isinstance(a, SR) or a.lin is None:
        return None
    lin = a.lin
    if len(lin.a) == 1 and lin.c.is_zero():
        (name, k), = lin.a.items()
        at = CTX.atoms[name]
        if at['lazy'] is not None and not at['linked'] and k.rational() == 1:
            return at['lazy']
    return None


def to_radians(x, unit):
    """scale an SR/number angle expressed in `unit` into radians (as SR with lin form)"""
    if unit == 'rad':
        return x
    return x * (math.pi / 180.0)


def angle_eq_term(a, b):
    """z3 Bool: computed angle a equals expected angle b (both radians; same principal range is the
    caller's business when a is not a lazy atom)"""
    if not isinstance(a, SR) and not isinstance(b, SR):
        return z3.BoolVal(abs(builtins.float(a) - builtins.float(b)) < 1e-12)
    if isinstance(a, SR) and isinstance(b, SR) and a.t.eq(b.t):
        return z3.BoolVal(True)
    lza, lzb = single_lazy(a), single_lazy(b)
    if lza and lzb and lza[0] == lzb[0]:
        # two inverse-trig results of the same kind: compare their arguments
        if lza[0] == 'atan2':
            (y1, x1), (y2, x2) = lza[1], lzb[1]
            both0 = z3.And(x1 == 0, y1 == 0, x2 == 0, y2 == 0)
            return z3.Or(both0, z3.And(y1 * x2 == y2 * x1, x1 * x2 + y1 * y2 > 0))
        return lza[1][0] == lzb[1][0]
    cb, sb = cossin(b)
    lz = lza
    if lz:
        kind, args = lz
        if kind == 'atan2':
            ty, tx = args
            return z3.And(tx * sb == ty * cb, tx * cb + ty * sb > 0)
        if kind == 'asin':
            return z3.And(args[0] == sb, cb >= 0)
        if kind == 'acos':
            return z3.And(args[0] == cb, sb >= 0)
    ca, sa = cossin(a)
    return z3.And(ca == cb, sa == sb)
