"""cvc5 1.4 (python wheel) as a command-line back end: python cvc5cli.py <timeout_ms> <file.smt2>"""
import sys


def main():
    import cvc5
    tmo, fn = int(sys.argv[1]), sys.argv[2]
    txt = open(fn).read()
    tm = cvc5.TermManager()
    slv = cvc5.Solver(tm)
    slv.setOption('tlimit-per', str(tmo))
    slv.setOption('produce-models', 'true')
    ip = cvc5.InputParser(slv)
    ip.setStringInput(cvc5.InputLanguage.SMT_LIB_2_6, txt, 'q')
    sm = ip.getSymbolManager()
    while True:
        c = ip.nextCommand()
        if c.isNull():
            break
        out = c.invoke(slv, sm)
        if out:
            sys.stdout.write(out if isinstance(out, str) else str(out))
            sys.stdout.flush()


if __name__ == '__main__':
    try:
        main()
    except Exception as e:
        print(f'(error "{e}")')
