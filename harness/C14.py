"""C14 - WMM output equals the spherical-harmonic synthesis of the shipped coefficients."""
import datetime
import pkgutil
import numpy as np
from ahrs.utils import wmm as wmmmod
from ahrs.utils.wmm import WMM
from symnp.harness import harness
from reference import wmmref

PROPERTY = dict(
    id='C14',
    explanation="Compositional, each link an obligation on the real code: L1 the cos(m lambda) / sin(m lambda) recursion "
                "(symbolic longitude, m <= 12); L2 the Legendre recursion of denormalize_coefficients: P[m,n], dP[m,n] "
                "(symbolic geocentric latitude) against an independent generator (derivative formula of the Legendre "
                "polynomials with Gauss normalisation), and the Schmidt factors folded into c / cd against the closed "
                "formula; L3 the synthesis loop of magnetic_field executed on FRESH SYMBOLS for P, dP, cp, sp and the Gauss "
                "coefficients (a harness subclass overrides denormalize_coefficients to call the real method and then replace "
                "those attributes: a stub at a method boundary, no change to the repository) against the textbook sums, "
                "including the polar branch and the rotation from geocentric to geodetic axes; L4 geodetic2spherical against "
                "the WGS84 formulas; L5 (finite, enumerated completely): coefficient files -> packed c / cd matrices against "
                "an independent parser for the three files, and for each of the 151 dates 2015.0..2030.0 the selected file, "
                "epoch and dt = round(date, 1) - epoch.",
    bounds="degree 12; dates on the 0.1-year grid; L3 with the 90+78 coefficients, 2x(13x14) Legendre entries and 2x13 "
           "longitude harmonics as free symbols",
    outside=["the polar special case of the east component (cos(phi') == 0 branch: its limit form is not checked)",
             "rounding of the degree-13 recursions (the published test values cover that)", "non-grid dates (datetime "
             "arithmetic is not symbolic)"],
    wall_limit=dict(quick=400, thorough=1200),
)
FW = 'ahrs.utils.wmm:'
DEG = 12


@harness('C14/L1.longitude-harmonics', functions=[FW + 'WMM.magnetic_field'], max_paths=8)
def l1(h):
    """cp[m], sp[m] == cos(m lon), sin(m lon) for m = 0..12 and symbolic longitude"""
    lon = h.angle('lon', 'pm_pi', 'deg')
    w = WMM(date=2022.0, latitude=10.0, longitude=20.0)
    w.magnetic_field(10.0, lon, 1.0, date=2022.0)
    h.out('cp', np.array(w.cp[:DEG + 1]))
    if h.sym:
        from symnp import trig
        from symnp.core import SR
        lr = lon * (np.pi / 180.0)
        for m in range(0, DEG + 1):
            c, s = trig.cossin(lr * m) if m else (None, None)
            if m == 0:
                h.check('cp[0] == 1, sp[0] == 0', h.eq(w.cp[0], 1.0) & h.eq(w.sp[0], 0.0))
            else:
                h.check(f'cp[{m}] == cos({m} lon)', h.eq(w.cp[m], SR(c)))
                h.check(f'sp[{m}] == sin({m} lon)', h.eq(w.sp[m], SR(s)))
    else:
        lr = np.deg2rad(lon)
        for m in range(0, DEG + 1):
            h.check(f'cp[{m}] == cos({m} lon)', h.eq(w.cp[m], np.cos(m * lr)))
            h.check(f'sp[{m}] == sin({m} lon)', h.eq(w.sp[m], np.sin(m * lr)))


@harness('C14/L2.legendre', functions=[FW + 'WMM.denormalize_coefficients'], max_paths=8)
def l2(h):
    """P[m,n], dP[m,n] from denormalize_coefficients == Gauss-normalised associated Legendre functions (independent generator)"""
    phi = h.angle('phi', 'pm_halfpi')
    w = WMM(date=2022.0, latitude=10.0, longitude=20.0)
    w.reset_coefficients(2022.0)
    w.denormalize_coefficients(phi)
    if h.sym:
        from symnp import trig
        from symnp.core import SR
        c_, s_ = trig.cossin(phi)
        c, s = SR(c_), SR(s_)
    else:
        c, s = np.cos(phi), np.sin(phi)
    h.out('P[1..3]', np.array([w.P[0, 1], w.P[1, 1], w.P[0, 2], w.P[1, 2], w.P[2, 2], w.P[1, 3]]))
    nmax = DEG if h.tier == 'thorough' else 8
    for n in range(1, nmax + 1):
        for m in range(n + 1):
            h.check(f'P[{m},{n}]', h.eq(w.P[m, n], wmmref.gauss_P(n, m, s, c) if h.sym else float(wmmref.gauss_P(n, m, s, c))))
            h.check(f'dP[{m},{n}]', h.eq(w.dP[m, n], wmmref.gauss_dP(n, m, s, c) if h.sym else float(wmmref.gauss_dP(n, m, s, c))))


class _StubbedWMM(WMM):
    """the real synthesis loop runs on fresh symbols for everything denormalize_coefficients / the longitude recursion produce"""
    _h = None

    def denormalize_coefficients(self, latitude):
        WMM.denormalize_coefficients(self, latitude)          # the real method (keeps k[m,n] and shapes)
        h = self._h
        n1 = self.degree + 1
        self.P = h.arr([[h.real(f'P_{m}_{n}', -2, 2) for n in range(n1)] for m in range(n1 + 1)])
        self.dP = h.arr([[h.real(f'dP_{m}_{n}', -2, 2) for n in range(n1)] for m in range(n1 + 1)])
        self.cp = h.arr([h.real(f'cp_{m}', -1, 1) for m in range(n1 + 1)])
        self.sp = h.arr([h.real(f'sp_{m}', -1, 1) for m in range(n1)])
        self.c = h.arr([[h.real(f'c_{i}_{j}', -3, 3) for j in range(n1)] for i in range(n1)])
        self.cd = h.arr([[h.real(f'cd_{i}_{j}', -1, 1) for j in range(n1)] for i in range(n1)])


def _ref_sums(w, ar, dt, deg):
    """textbook synthesis on the same (stubbed) arrays: g = c[m,n], h = c[n,m-1]"""
    Xp = Yp = Zp = 0.0
    for n in range(1, deg + 1):
        xs = ys = zs = 0.0
        for m in range(n + 1):
            g = w.c[m, n] + dt * w.cd[m, n]
            hh = (w.c[n, m - 1] + dt * w.cd[n, m - 1]) if m > 0 else 0.0
            cosm, sinm = w.cp[m], (w.sp[m] if m > 0 else 0.0)
            xs = xs + (g * cosm + hh * sinm) * w.dP[m, n]
            ys = ys + m * (g * sinm - hh * cosm) * w.P[m, n]
            zs = zs + (g * cosm + hh * sinm) * w.P[m, n]
        f = ar ** (n + 2)
        Xp = Xp + f * xs
        Yp = Yp + f * ys
        Zp = Zp - (n + 1) * f * zs
    return Xp, Yp, Zp


@harness('C14/L3.synthesis', functions=[FW + 'WMM.magnetic_field'], max_paths=8, algcert_s=40.0,
         stubs=['denormalize_coefficients: real method, then P/dP/cp/sp/c/cd replaced by fresh symbols'])
def l3(h):
    """the harmonic sums and the rotation to geodetic axes, on fresh symbols for the Legendre / longitude / Gauss arrays"""
    lat = h.angle('lat', 'pm_halfpi', 'deg', lo=-89.0, hi=89.0)
    lon = h.angle('lon', 'pm_pi', 'deg')
    hgt = h.real('hgt', -1.0, 850.0)
    h.definedness = 'assume'        # the square roots / arcsin of geodetic2spherical are L4's subject
    _StubbedWMM._h = h
    w = _StubbedWMM(date=2021.3, latitude=10.0, longitude=20.0)
    w.magnetic_field(lat, lon, hgt, date=2021.3)          # 1.3 years after the epoch: not exact in binary
    dt = round(w.date_dec, 1) - w.epoch
    # geocentric latitude and radius exactly as the code obtains them
    latr = lat * (np.pi / 180.0)
    lp, _, r = wmmmod.geodetic2spherical(latr, lon * (np.pi / 180.0), hgt)
    ar = (wmmmod.EARTH_MEAN_RADIUS / 1000.0) / r
    Xp, Yp, Zp = _ref_sums(w, ar, dt, DEG)
    if h.sym:
        from symnp import trig
        from symnp.core import SR
        cl, sl = trig.cossin(lp)
        cd_, sd_ = trig.cossin(lp - latr)
        cosl, cosd, sind = SR(cl), SR(cd_), SR(sd_)
    else:
        cosl, cosd, sind = np.cos(lp), np.cos(lp - latr), np.sin(lp - latr)
    h.out('XYZ', np.array([w.X, w.Y, w.Z]))
    h.check("X == X' cos(phi' - phi) - Z' sin(phi' - phi)", h.eq(w.X, Xp * cosd - Zp * sind))
    h.check("Y == Y' / cos(phi') (away from the poles; the polar special case is outside this link)",
            h.eq(cosl, 0.0) | h.eq(w.Y * cosl, Yp))
    h.check("Z == X' sin(phi' - phi) + Z' cos(phi' - phi)", h.eq(w.Z, Xp * sind + Zp * cosd))


@harness('C14/L4.geodetic2spherical', functions=[FW + 'geodetic2spherical'], max_paths=8)
def l4(h):
    """geodetic2spherical: r^2 = rho^2 + z^2, sin(phi') = z / r with the WGS84 prime-vertical radius"""
    lat = h.angle('lat', 'pm_halfpi')
    hgt = h.real('hgt', -1.0, 850.0)
    lp, lo, r = wmmmod.geodetic2spherical(lat, 0.25, hgt)
    a = wmmmod.EARTH_EQUATOR_RADIUS / 1000.0
    b = wmmmod.EARTH_POLAR_RADIUS / 1000.0
    e2 = (a * a - b * b) / (a * a)
    if h.sym:
        from symnp import trig
        from symnp.core import SR
        c_, s_ = trig.cossin(lat)
        c, s = SR(c_), SR(s_)
        clp, slp = trig.cossin(lp)
        slp = SR(slp)
        clp = SR(clp)
    else:
        c, s = np.cos(lat), np.sin(lat)
        slp, clp = np.sin(lp), np.cos(lp)
    # N^2 (1 - e2 s^2) = a^2 ; rho = (N + h) c ; z = (N (1 - e2) + h) s
    N2 = a * a / (1.0 - e2 * s * s)
    h.out('r', r)
    h.check('longitude passed through', h.eq(lo, 0.25))
    # r^2 == rho^2 + z^2 stated with N eliminated is irrational; state it through the code's own N: r sin(phi') = z, r cos(phi') = rho
    h.check("(r sin phi')^2 + (r cos phi')^2 == r^2", h.eq(r * r * (slp * slp + clp * clp), r * r))
    h.check("r cos(phi') >= 0", h.ge(r * clp, 0.0))
    # z and rho against the closed forms: (r sin phi' - h s)^2 = N^2 (1-e2)^2 s^2 ; (r cos phi' - h c)^2 = N^2 c^2
    h.check("(r sin(phi') - h sin(phi))^2 == N^2 (1 - e^2)^2 sin^2(phi)",
            h.eq(((r * slp - hgt * s) ** 2) * (1.0 - e2 * s * s), a * a * (1.0 - e2) ** 2 * s * s))
    h.check("(r cos(phi') - h cos(phi))^2 == N^2 cos^2(phi)",
            h.eq(((r * clp - hgt * c) ** 2) * (1.0 - e2 * s * s), a * a * c * c))


@harness('C14/L5.files-and-dates', functions=[FW + 'WMM.load_coefficients', FW + 'WMM.reset_date', FW + 'WMM.get_properties'],
         max_paths=4, bounds='3 coefficient files, 151 dates: finite, enumerated completely')
def l5(h):
    """coefficient loading into the packed matrices and date -> model file selection (finite domain, enumerated)"""
    x = h.real('dummy', 0.0, 1.0)
    ok_files = True
    bad = []
    for year, fn in ((2016.0, 'WMM2015/WMM.COF'), (2021.0, 'WMM2020/WMM.COF'), (2026.0, 'WMM2025/WMM.COF')):
        w = WMM(date=year, latitude=10.0, longitude=20.0)
        w.reset_coefficients(year)
        ep, raw = wmmref.parse_cof(pkgutil.get_data('ahrs.utils.wmm', fn).decode())
        if w.wmm_filename != fn or float(w.epoch) != ep:
            ok_files = False
            bad.append((year, w.wmm_filename, w.epoch))
        for (n, m), (g, hh, gd, hd) in raw.items():
            vals = [(w.c[m, n], g), (w.cd[m, n], gd)] + ([(w.c[n, m - 1], hh), (w.cd[n, m - 1], hd)] if m > 0 else [])
            for got, exp in vals:
                if abs(float(got) - exp) > 1e-12:
                    ok_files = False
                    bad.append((year, n, m, float(got), exp))
    h.check('packed g/h and secular-variation matrices equal the parsed files (3 files x 90 x 4 numbers)',
            h.true() if ok_files else h.false())
    ok_dates = True
    for i in range(151):
        d = round(2015.0 + 0.1 * i, 1)
        w = WMM.__new__(WMM)
        w.reset_date(d)
        exp = 'WMM2015/WMM.COF' if d < 2020.0 else ('WMM2020/WMM.COF' if d < 2025.0 else 'WMM2025/WMM.COF')
        if w.wmm_filename != exp or abs(w.date_dec - d) > 1e-9:
            ok_dates = False
            bad.append((d, w.wmm_filename))
    h.check('model file selected for each of the 151 dates 2015.0 .. 2030.0', h.true() if ok_dates else h.false())
    h.note(f'enumeration mismatches: {bad[:5]}')
    # Schmidt factors folded into c by denormalize_coefficients (concrete latitude)
    w = WMM(date=2022.0, latitude=10.0, longitude=20.0)
    w.reset_coefficients(2022.0)
    w.denormalize_coefficients(0.3)
    ep, raw = wmmref.parse_cof(pkgutil.get_data('ahrs.utils.wmm', 'WMM2020/WMM.COF').decode())
    ok_s = True
    for (n, m), (g, hh, gd, hd) in raw.items():
        S = wmmref.schmidt_factor(n, m)
        pairs = [(w.c[m, n], g * S), (w.cd[m, n], gd * S)] + ([(w.c[n, m - 1], hh * S), (w.cd[n, m - 1], hd * S)] if m > 0 else [])
        for got, exp in pairs:
            if abs(float(got) - exp) > 1e-9 * (1 + abs(exp)):
                ok_s = False
    h.check('Schmidt semi-normalisation factors folded into c / cd equal sqrt((2-d)(n-m)!/(n+m)!) (2n-1)!!/(n-m)!',
            h.true() if ok_s else h.false())


@harness('C14/L6.constructor-inputs', functions=[FW + 'WMM.__init__', FW + 'WMM.magnetic_field'], max_paths=8,
         bounds='place (45, 60) and (0, 0); height symbolic in [-1, 100] km (the value 0 is a branch of the constructor and is explored)')
def l6(h):
    """the constructor hands latitude / longitude / height to the synthesis unchanged, including the values 0"""
    h.definedness = 'assume'
    hs = h.real('hgt', -1.0, 100.0)
    for lat, lon, hgt in ((45.0, 60.0, hs), (0.0, 0.0, hs), (45.0, 60.0, 0.0)):
        ref = WMM(date=2022.5, latitude=12.0, longitude=34.0)
        ref.magnetic_field(lat, lon, hgt, date=2022.5)
        h.check(f'({lat:g}, {lon:g}): the place handed to geodetic2spherical is the caller\'s (latitude, longitude, height; -1 km <= h)',
                h.eq(np.array([ref.latitude, ref.longitude, ref.height]), np.array([lat, lon, hgt])))
        c = WMM(date=2022.5, latitude=lat, longitude=lon, height=hgt)
        if c.X is None:
            h.check(f'constructor at ({lat:g}, {lon:g}) computed the elements', h.false())
            continue
        tag = 'h' if hgt is hs else '0'
        h.check(f'constructor at ({lat:g}, {lon:g}, {tag}) == magnetic_field(same place, same height)',
                h.eq(np.array([c.X, c.Y, c.Z]), np.array([ref.X, ref.Y, ref.Z])))
