"""Independent oracles: textbook rotation algebra written on plain Python arithmetic (works on floats and SR)."""
import numpy as np


def R_of_q(q):
    """rotation matrix of a unit quaternion (w, x, y, z), Hamilton convention, v' = R v = q v q*"""
    w, x, y, z = q[0], q[1], q[2], q[3]
    return np.array([
        [1 - 2 * (y * y + z * z), 2 * (x * y - w * z), 2 * (x * z + w * y)],
        [2 * (x * y + w * z), 1 - 2 * (x * x + z * z), 2 * (y * z - w * x)],
        [2 * (x * z - w * y), 2 * (y * z + w * x), 1 - 2 * (x * x + y * y)]], dtype=object if _is_obj(q) else float)


def R_of_q_hom(q):
    """homogeneous form (valid for any non-zero q after division by |q|^2): w2+x2-y2-z2 on the diagonal"""
    w, x, y, z = q[0], q[1], q[2], q[3]
    return np.array([
        [w * w + x * x - y * y - z * z, 2 * (x * y - w * z), 2 * (x * z + w * y)],
        [2 * (x * y + w * z), w * w - x * x + y * y - z * z, 2 * (y * z - w * x)],
        [2 * (x * z - w * y), 2 * (y * z + w * x), w * w - x * x - y * y + z * z]], dtype=object if _is_obj(q) else float)


def _is_obj(q):
    return any(not isinstance(e, (int, float, np.floating, np.integer)) for e in q)


def qmul(p, q):
    """Hamilton product"""
    pw, px, py, pz = p[0], p[1], p[2], p[3]
    qw, qx, qy, qz = q[0], q[1], q[2], q[3]
    return np.array([
        pw * qw - px * qx - py * qy - pz * qz,
        pw * qx + px * qw + py * qz - pz * qy,
        pw * qy - px * qz + py * qw + pz * qx,
        pw * qz + px * qy - py * qx + pz * qw], dtype=object if (_is_obj(p) or _is_obj(q)) else float)


def qconj(q):
    return np.array([q[0], -q[1], -q[2], -q[3]], dtype=object if _is_obj(q) else float)


def rotate(q, v):
    """vector part of q (0,v) q*"""
    vq = np.array([0.0, v[0], v[1], v[2]], dtype=object if (_is_obj(q) or _is_obj(v)) else float)
    r = qmul(qmul(q, vq), qconj(q))
    return r[1:]


def matvec(R, v):
    return np.array([R[i][0] * v[0] + R[i][1] * v[1] + R[i][2] * v[2] for i in range(3)], dtype=object if _is_obj(v) or R.dtype == object else float)


def det3(M):
    return (M[0][0] * (M[1][1] * M[2][2] - M[1][2] * M[2][1]) - M[0][1] * (M[1][0] * M[2][2] - M[1][2] * M[2][0])
            + M[0][2] * (M[1][0] * M[2][1] - M[1][1] * M[2][0]))


def Rx(c, s):
    return np.array([[1.0, 0.0, 0.0], [0.0, c, -s], [0.0, s, c]], dtype=object)


def Ry(c, s):
    return np.array([[c, 0.0, s], [0.0, 1.0, 0.0], [-s, 0.0, c]], dtype=object)


def Rz(c, s):
    return np.array([[c, -s, 0.0], [s, c, 0.0], [0.0, 0.0, 1.0]], dtype=object)
