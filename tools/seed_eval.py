#!/usr/bin/env python3
"""Confirm a seeded change in a scratch worktree, store it under /verif/seeded/<id>/, run the property's check against it.
usage: seed_eval.py <PID> <worktree> <m-dir> <seed-id> [--only substr] [--tier quick]"""
import json, os, shutil, subprocess, sys, time
pid, wt, mdir, sid = sys.argv[1:5]
only = sys.argv[sys.argv.index('--only') + 1] if '--only' in sys.argv else None
tier = sys.argv[sys.argv.index('--tier') + 1] if '--tier' in sys.argv else 'quick'
patch = os.path.join(mdir, 'patch.diff'); demo = os.path.join(mdir, 'demo.py')
def run(cmd, cwd=None, env=None, timeout=3000):
    p = subprocess.run(cmd, shell=True, cwd=cwd, env=env, capture_output=True, text=True, timeout=timeout)
    return p.returncode, (p.stdout + p.stderr)
env = dict(os.environ, PYTHONPATH=wt)
ran = []
head = subprocess.run('git -C /repo rev-parse HEAD', shell=True, capture_output=True, text=True).stdout.strip()
rc, out = run(f'git checkout -- . && git checkout -q --detach {head}', cwd=wt); assert rc == 0, out      # the seed is judged on top of /repo's HEAD
ran.append(f'worktree at {head[:7]}')
rc0, out0 = run(f'/venv/bin/python {demo}', cwd=wt, env=env); ran.append(f'demo on pristine worktree: exit {rc0}')
rc, out = run(f'git apply {patch}', cwd=wt); assert rc == 0, out
rct, outt = run('/venv/bin/python -m pytest -q -p no:cacheprovider --timeout=900 tests 2>&1 | tail -1', cwd=wt, env=env); ran.append('pytest with change: ' + outt.strip())
rc1, out1 = run(f'/venv/bin/python {demo}', cwd=wt, env=env); ran.append(f'demo with change: exit {rc1}')
run('git checkout -- .', cwd=wt)
ok = rc0 == 0 and rc1 != 0 and ' passed' in outt and 'failed' not in outt
dst = f'/verif/seeded/{sid}'; os.makedirs(dst, exist_ok=True)
shutil.copy(patch, dst + '/patch.diff'); shutil.copy(demo, dst + '/demo.py')
notes = open(os.path.join(mdir, 'notes.txt')).read() if os.path.exists(os.path.join(mdir, 'notes.txt')) else ''
res = dict(confirmed=ok)
if ok:
    # the check is pointed at the scratch worktree with the change applied (SYMNP_REPO), so /repo itself stays untouched and
    # other work can go on; `git -C /repo apply <patch>; ./check ...; git -C /repo checkout -- .` is equivalent
    rc, out = run(f'git apply {dst}/patch.diff', cwd=wt); assert rc == 0, out
    try:
        t = time.time()
        cmd = f'./check {pid} --tier {tier} --no-evidence --jobs {os.environ.get("SEED_JOBS", "16")}' + (f' --only {only}' if only else '')
        rcc, outc = run(cmd, cwd='/verif', timeout=3600, env=dict(os.environ, SYMNP_REPO=wt))
        viol = [l for l in outc.split('\n') if l.startswith('VIOLATION')]
        vnames = sorted({l.split(' :: ')[0].replace('  violation: ', '') + ' :: ' + l.split(' :: ')[1] for l in outc.split('\n') if l.startswith('  violation:')})
        res.update(check_cmd=cmd, check_exit=rcc, detected=bool(viol) and rcc == 1, violations=vnames[:8], wall_s=round(time.time() - t, 1))
        ran.append(f'{cmd}: exit {rcc}, {len(viol)} VIOLATION lines')
    finally:
        run('git checkout -- .', cwd=wt)
meta = dict(id=sid, property=pid, needs=notes.strip()[:1500], ran=ran, result=res)
json.dump(meta, open(dst + '/meta.json', 'w'), indent=1)
print(json.dumps(dict(id=sid, confirmed=ok, **{k: res.get(k) for k in ('detected', 'check_exit', 'violations', 'wall_s')}), indent=1))
