import sys; sys.path.insert(0,'/repo'); sys.path.insert(0,'/tmp/probe')
import time, z3, numpy as _np, traceback, math
from fractions import Fraction as F
from proto import *
import trig
from trig import TH, new_angle, angle_eq, cossin
from portfolio import run_portfolio
import ahrs
import ahrs.common.orientation as ori, ahrs.common.quaternion as quat, ahrs.common.dcm as dcm, ahrs.utils.core as core, ahrs.common.mathfuncs as mf
patch([ori, quat, dcm, core, mf])
Proxy.dot=lambda self,a,b: _np.dot(a,b)
pv=[z3.Real(n) for n in 'abcd']; qv=[z3.Real(n) for n in 'wxyz']
pre=[sum(t*t for t in pv)==1, sum(t*t for t in qv)==1]
def run():
    TH.reset(); trig._n[0]=0
    p=_np.array([SR(t) for t in pv],dtype=object); q=_np.array([SR(t) for t in qv],dtype=object)
    CTX.pc += pre
    # rational weights as exact: the shim would map floats 0.5 -> 1/2
    t=_np.array([0.0, 0.5, 1.0],dtype=object)
    return quat.slerp(p,q,t)
t0=time.time(); paths=explore(run); print('slerp paths',len(paths), round(time.time()-t0,1))
for i,(pc,defs,oblig,(kind,val)) in enumerate(paths):
    if kind=='exc': print('EXC',repr(val), ''.join(traceback.format_tb(val.__traceback__)[-3:])[:600]); continue
    out=val
    print(' path',i,'pc',[str(c)[:60] for c in pc[2:]], 'defs',len(defs))
    row=[lift(e) for e in out[1]]
    print('   unit norm t=1/2', run_portfolio(pc+defs+[sum(e*e for e in row)!=1], 60, 'sl'))
    row0=[lift(e) for e in out[0]]
    print('   start = p', run_portfolio(pc+defs+[z3.Or([e!=t for e,t in zip(row0,pv)])], 60, 'sl'))
    row2=[lift(e) for e in out[2]]
    print('   end = +-q', run_portfolio(pc+defs+[z3.Or([e!=t for e,t in zip(row2,qv)]), z3.Or([e!=-t for e,t in zip(row2,qv)])], 60, 'sl'))
