"""C18 - rotation metrics are bi-invariant distances with their closed forms."""
import numpy as np
from ahrs.utils import metrics
from symnp.harness import harness
from reference import rot

PROPERTY = dict(
    id='C18',
    explanation="Domain: unit quaternions p, q, s (matrices R_ref(.)), relative angle t >= 1e-4 rad stated as (p.q)^2 <= "
                "cos^2(5e-5). With d = p.q the closed forms are polynomial / root identities: chordal^2 = identity_deviation^2 = "
                "8(1-d^2) = (2 sqrt2 sin(t/2))^2, qdist^2 = 2(1-|d|), qeip = 1-|d|, qcip = arccos|d| = t/2, qad = "
                "arccos(2d^2-1) = t, angular_distance^2 = 2 t^2. Symmetry, sign invariance and left/right invariance are decided "
                "by executing the real functions on (p,q), (q,p), (-p,q), (sp,sq), (ps,qs) and comparing (squares of root-valued "
                "results are compared, all results being non-negative by a separate obligation). The allclose() -> 0.0 shortcuts "
                "of the single-pair quaternion metrics must be unreachable in the domain (they are branch sides the solver has to "
                "refute).",
    bounds="single pairs and N = 2 batches; quick tier: relative angle >= 0.09 rad for the four quaternion metrics (full range in "
           "the thorough tier); angular_distance is executed in the thorough tier only",
    wall_limit=dict(quick=240, thorough=1500),
    outside=["triangle inequality (three rotations, nested roots / arccos: not decided by this family within reach)",
             "rounding"],
)
FM = 'ahrs.utils.metrics:'
COS2_MIN = 0.9999999975   # cos^2(5e-5) = 1 - 2.5e-9 + ...


def _dot(a, b):
    return a[0] * b[0] + a[1] * b[1] + a[2] * b[2] + a[3] * b[3]


def _pair(h, shortcuts=False):
    p, q = h.unit_quat('p'), h.unit_quat('q')
    d = _dot(p, q)
    # relative angle >= 1e-4 rad; for the functions with allclose shortcuts the quick tier uses >= 0.09 rad (d^2 <= 0.998)
    # so that refuting the shortcut sides stays cheap; the thorough tier uses the full range
    h.assume(h.le(d * d, 0.998 if (shortcuts and h.tier == 'quick') else COS2_MIN))
    if shortcuts:
        dm = sum((p[i] - q[i]) ** 2 for i in range(4))
        dp = sum((p[i] + q[i]) ** 2 for i in range(4))
        h.lemma('|p - q|^2 == 2 - 2 p.q', h.eq(dm, 2.0 - 2.0 * d))
        h.lemma('|p + q|^2 == 2 + 2 p.q', h.eq(dp, 2.0 + 2.0 * d))
    # Lagrange identity as a certified lemma: 1 - d^2 is a sum of squares
    sq = 0.0
    for i in range(4):
        for j in range(i + 1, 4):
            sq = sq + (p[i] * q[j] - p[j] * q[i]) ** 2
    h.lemma('Lagrange: 1 - (p.q)^2 == sum (p_i q_j - p_j q_i)^2', h.eq(1.0 - d * d, sq))
    return p, q, d


@harness('C18/matrix-metrics', functions=[FM + 'chordal', FM + 'identity_deviation'], max_paths=16)
def matrix_metrics(h):
    """chordal and identity deviation: closed form 8(1-d^2), symmetry, sign invariance, left and right invariance"""
    p, q, d = _pair(h)
    s = h.unit_quat('s')
    Rp, Rq, Rs = rot.R_of_q(p), rot.R_of_q(q), rot.R_of_q(s)
    for fn in (metrics.chordal, metrics.identity_deviation):
        m = fn(Rp, Rq)
        h.out(fn.__name__, m)
        h.check(f'{fn.__name__} >= 0', h.ge(m, 0.0))
        h.lemma(f'{fn.__name__}^2 == 8(1 - d^2)', h.eq(m * m, 8.0 * (1.0 - d * d)))
        h.check(f'{fn.__name__} > 0 for distinct rotations', h.gt(m * m, 0.0))
        m2 = fn(Rq, Rp)
        h.check(f'{fn.__name__} symmetric', h.eq(m2 * m2, m * m) & h.ge(m2, 0.0))
        if fn is metrics.chordal or h.tier == 'thorough':
            ml = fn(Rs @ Rp, Rs @ Rq)
            h.check(f'{fn.__name__} left-invariant', h.eq(ml * ml, m * m) & h.ge(ml, 0.0))
            mr = fn(Rp @ Rs, Rq @ Rs)
            h.check(f'{fn.__name__} right-invariant', h.eq(mr * mr, m * m) & h.ge(mr, 0.0))
        z = fn(Rp, Rp)
        h.check(f'{fn.__name__}(R, R) == 0', h.eq(z * z, 0.0))
    B = metrics.chordal(np.array([Rp, Rq]), np.array([Rq, Rp]))
    h.check('chordal batch rows', h.eq(B[0] * B[0], 8.0 * (1.0 - d * d)) & h.eq(B[1] * B[1], 8.0 * (1.0 - d * d)))


@harness('C18/quaternion-metrics', functions=[FM + 'qdist', FM + 'qeip', FM + 'qcip', FM + 'qad'], max_paths=48)
def quat_metrics(h):
    """qdist, qeip, qcip, qad: closed forms in d = p.q, symmetry, sign invariance; allclose shortcuts unreachable for t >= 1e-4"""
    p, q, d = _pair(h, shortcuts=True)
    ad = abs(d) if not h.sym else None
    sg = h.split_signs([d], 'd')[0] if h.sym else (1 if d >= 0 else -1)
    absd = sg * d
    m = metrics.qdist(p.copy(), q.copy())
    h.out('qdist', m)
    h.check('qdist >= 0', h.ge(m, 0.0))
    h.check('qdist^2 == 2(1 - |d|)', h.eq(m * m, 2.0 * (1.0 - absd)))
    e = metrics.qeip(p.copy(), q.copy())
    h.out('qeip', e)
    h.check('qeip == 1 - |d|', h.eq(e, 1.0 - absd))
    for tag, a, b in (('symmetric', q, p), ('sign-invariant', -p, q)):
        m2 = metrics.qdist(a.copy(), b.copy())
        h.check(f'qdist {tag}', h.eq(m2 * m2, m * m) & h.ge(m2, 0.0))
        h.check(f'qeip {tag}', h.eq(metrics.qeip(a.copy(), b.copy()), e))
    c = metrics.qcip(p.copy(), q.copy())
    a_ = metrics.qad(p.copy(), q.copy())
    if h.sym:
        from symnp import trig
        from symnp.core import SR
        # qcip = arccos|d| and qad = arccos(2d^2 - 1): compared through their cosines (both in [0, pi])
        cc, sc = trig.cossin(c)
        h.check('cos(qcip) == |d|', h.eq(SR(cc), absd) & h.ge(SR(sc), 0.0))
        ca, sa = trig.cossin(a_)
        h.check('cos(qad) == 2d^2 - 1', h.eq(SR(ca), 2.0 * d * d - 1.0) & h.ge(SR(sa), 0.0))
        c2, s2 = trig.cossin(2.0 * c)
        h.check('cos(2 qcip) == cos(qad)', h.eq(SR(c2), SR(ca)))
    else:
        h.check('cos(qcip) == |d|', h.eq(np.cos(c), absd))
        h.check('cos(qad) == 2d^2 - 1', h.eq(np.cos(a_), 2.0 * d * d - 1.0))
        h.check('cos(2 qcip) == cos(qad)', h.eq(np.cos(2.0 * c), np.cos(a_)))


@harness('C18/invariance.quaternion', functions=[FM + 'qdist', FM + 'qeip'], max_paths=48)
def quat_invariance(h):
    """left and right invariance of the quaternion metrics, as a cut: each metric is a function of |p.q| only for every unit
    pair (C18/quaternion-metrics), and (sp).(sq) = (ps).(qs) = p.q for unit s, with sp, ps unit (decided here)"""
    p, q = h.unit_quat('p'), h.unit_quat('q')
    d = _dot(p, q)
    s = h.unit_quat('s')
    for tag, a, b in (('left', rot.qmul(s, p), rot.qmul(s, q)), ('right', rot.qmul(p, s), rot.qmul(q, s))):
        h.check(f'(s p).(s q) == p.q ({tag})', h.eq(_dot(a, b), d))
        h.check(f'|s p| == 1 ({tag})', h.is_unit(a) & h.is_unit(b))


@harness('C18/angular_distance', functions=[FM + 'angular_distance', 'ahrs.common.dcm:DCM.log'], max_paths=16)
def angular_distance(h):
    """angular_distance(R1, R2)^2 == 2 t^2 with t the code's own arccos atom and cos t == 2d^2 - 1 (so t is the relative angle)"""
    p, q, d = _pair(h)
    Rp, Rq = rot.R_of_q(p), rot.R_of_q(q)
    h.lemma_rotation(Rp @ Rq.T)
    h.lemma('trace(R1 R2^T) == 4 d^2 - 1', h.eq((Rp @ Rq.T).trace(), 4.0 * d * d - 1.0))
    m = metrics.angular_distance(Rp, Rq)
    h.out('angular_distance', m)
    h.check('angular_distance >= 0', h.ge(m, 0.0))
    tr = 4.0 * d * d - 1.0
    # KF-C18-angular-distance (= the DCM.log shortcut of KF-C10-dcm-log): zero for relative angles up to ~7.7e-3 rad
    small = h.kf('KF-C18-angular-distance', h.ge(tr, 3.0 - 3.001e-5))
    if h.sym:
        from symnp.core import CTX, SR, Lin, PiPoly
        from symnp import trig
        from fractions import Fraction as Fr
        theta = None
        for n, at in CTX.atoms.items():
            if n.startswith('acos_'):
                theta = SR(at['var'], Lin({n: PiPoly({0: Fr(1)})}, PiPoly()))
        if theta is not None:
            ct, st = trig.cossin(theta)
            h.check('cos(t) == 2 d^2 - 1 for the angle t the code extracted', h.eq(SR(ct), 2.0 * d * d - 1.0))
            h.check('angular_distance^2 == 2 t^2 (outside KF-C18-angular-distance)', small | h.eq(m * m, 2.0 * theta * theta))
        else:
            h.check('shortcut path only inside the known band', h.ge(tr, 3.0 - 3.001e-5))
    else:
        t = np.arccos(np.clip(2.0 * d * d - 1.0, -1.0, 1.0))
        h.check('angular_distance^2 == 2 t^2 (outside KF-C18-angular-distance)', small | h.eq(m * m, 2.0 * t * t, tol=1e-5))
    h.check('inside the shortcut band the result is exactly 0 (known defect only)', h.lt(tr, 3.0 - 2.999e-5) | h.eq(m * m, 0.0))


@harness('C18/quaternion-metrics.batch', functions=[FM + 'qdist', FM + 'qeip', FM + 'qcip', FM + 'qad'], max_paths=32, bounds='N=2')
def quat_metrics_batch(h):
    """N-row branches of qdist / qeip / qcip / qad: closed forms in d per row, including rows with negative p.q"""
    p, q = h.unit_quat('p'), h.unit_quat('q')
    d = _dot(p, q)
    h.assume(h.le(d * d, 0.998))
    sq = 0.0
    for i in range(4):
        for j in range(i + 1, 4):
            sq = sq + (p[i] * q[j] - p[j] * q[i]) ** 2
    h.lemma('Lagrange: 1 - (p.q)^2 == sum (p_i q_j - p_j q_i)^2', h.eq(1.0 - d * d, sq))
    sg = h.split_signs([d], 'd')[0] if h.sym else (1 if d >= 0 else -1)
    absd = sg * d
    A, B = np.array([p, -p]), np.array([q, q])          # second row: the same pair with one sign flipped
    m = metrics.qdist(A.copy(), B.copy())
    e = metrics.qeip(A.copy(), B.copy())
    h.out('qdist', m)
    for i in range(2):
        h.check(f'qdist row{i}^2 == 2(1 - |d|)', h.eq(m[i] * m[i], 2.0 * (1.0 - absd)) & h.ge(m[i], 0.0))
        h.check(f'qeip row{i} == 1 - |d|', h.eq(e[i], 1.0 - absd))
    c = metrics.qcip(A.copy(), B.copy())
    a_ = metrics.qad(A.copy(), B.copy())
    for i in range(2):
        if h.sym:
            from symnp import trig
            from symnp.core import SR
            cc, sc = trig.cossin(c[i])
            h.check(f'cos(qcip row{i}) == |d|', h.eq(SR(cc), absd))
            ca, sa = trig.cossin(a_[i])
            h.check(f'cos(qad row{i}) == 2d^2 - 1', h.eq(SR(ca), 2.0 * d * d - 1.0))
        else:
            h.check(f'cos(qcip row{i}) == |d|', h.eq(np.cos(c[i]), absd))
            h.check(f'cos(qad row{i}) == 2d^2 - 1', h.eq(np.cos(a_[i]), 2.0 * d * d - 1.0))
