import sys; sys.path.insert(0,'/repo'); sys.path.insert(0,'/tmp/probe')
import time, z3, numpy as _np, traceback
from proto import *
import trig
from trig import TH
import ahrs
import ahrs.common.orientation as ori, ahrs.common.quaternion as quat, ahrs.common.dcm as dcm, ahrs.utils.core as core, ahrs.common.mathfuncs as mf
import ahrs.filters.madgwick as mad, ahrs.filters.mahony as mah
patch([ori, quat, dcm, core, mf, mad, mah])
N=3
def arr(pfx):
    return _np.array([[SR(z3.Real(f'{pfx}{t}_{i}')) for i in range(3)] for t in range(N)],dtype=object)
def run(cls, kw={}):
    TH.reset()
    gyr,acc=arr('g'),arr('a')
    q0=_np.array([SR(z3.Real(f'q0_{i}')) for i in range(4)],dtype=object)
    CTX.pc.append(sum(lift(e)*lift(e) for e in q0)==1)
    batch=cls(gyr=gyr,acc=acc,q0=q0,**kw).Q
    f=cls(**kw); Q=[None]*N
    # initial attitude the same way the batch does: q0/|q0|
    Q[0]=batch[0]
    for t in range(1,N): Q[t]=f.updateIMU(Q[t-1],gyr[t],acc[t])
    return batch, Q
CTX.feas_tmo=1500
for cls in [mad.Madgwick, mah.Mahony]:
    t0=time.time(); paths=explore(lambda: run(cls), max_paths=100); print(cls.__name__,'paths',len(paths),'explore',round(time.time()-t0,1),'feas queries',CTX.queries)
    nun=0
    for i,(pc,defs,oblig,(kind,val)) in enumerate(paths):
        if kind=='exc': print('  EXC',repr(val), ''.join(traceback.format_tb(val.__traceback__)[-2:])[:300]); continue
        b,s=val
        diffs=[lift(b[t][k])!=lift(s[t][k]) for t in range(N) for k in range(4)]
        sv=z3.Solver(); sv.set('timeout',20000)
        for c in pc+defs: sv.add(c)
        sv.add(z3.Or(diffs)); r=sv.check()
        if r!=z3.unsat: print('  path',i,r); nun+=1
    print('  non-unsat paths:',nun, 'total', round(time.time()-t0,1))
