"""C10 - attitude representations round-trip (Euler, axis-angle, log/exp, powers)."""
import itertools
import numpy as np
from ahrs import Quaternion, QuaternionArray, DCM
from ahrs.common import orientation as ori
from ahrs.common import dcm as dcmmod
from symnp.harness import harness
from reference import rot

PROPERTY = dict(
    id='C10',
    explanation="Angles are symbolic angle atoms (one (cos, sin) pair per atom at its finest needed granularity); the code's "
                "arctan2/arcsin/arccos results are lazy atoms compared with the expected angle by cross-multiplication. "
                "Domains: roll, yaw in (-pi, pi], |pitch| <= pi/2 - 1e-6; rotation angle in (0, pi) (strictly, with a margin "
                "1e-6 from both ends for the definedness of axis = v/|v|); unit axis. Oracles: the input angles / axis "
                "themselves (round trips), ordered products of elementary rotations written in reference/rot.py.",
    bounds="Euler sequences of length 1-3 over {x,y,z} (quick: a representative subset; thorough: all 39); powers: q**1, q**0, "
           "q**2 = q*q, q**a q**b = q**(a+b) for a, b in {1, 2, -1, 1/2} only through the known-finding characterisation",
    outside=["real exponents outside the small rational grid", "rounding"],
)

FQ = 'ahrs.common.quaternion:'
FO = 'ahrs.common.orientation:'
FD = 'ahrs.common.dcm:'
PITCH_MAX = 1.5707953267948966   # pi/2 - 1e-6


def _rpy(h, sfx=''):
    r = h.angle('roll' + sfx, 'pm_pi')
    p = h.angle('pitch' + sfx, 'pm_halfpi', lo=-PITCH_MAX, hi=PITCH_MAX)
    y = h.angle('yaw' + sfx, 'pm_pi')
    return r, p, y


@harness('C10/rpy.Quaternion', functions=[FQ + 'Quaternion.from_rpy', FQ + 'Quaternion.to_angles'])
def rpy_quaternion(h):
    """Quaternion(rpy=a).to_angles() == a for |pitch| < pi/2"""
    r, p, y = _rpy(h)
    q = Quaternion(rpy=h.arr([r, p, y]))
    h.out('q', np.array(q))
    out = q.to_angles()
    h.check('|q| == 1', h.is_unit(np.array(q)))
    for k, (o, e) in enumerate(zip(out, (r, p, y))):
        h.check(f'angle[{k}]', h.angle_eq(o, e))


@harness('C10/rpy.QuaternionArray+free', functions=[FQ + 'QuaternionArray.from_rpy', FQ + 'QuaternionArray.to_angles',
                                                    FO + 'rpy2q', FO + 'q2rpy'])
def rpy_array(h):
    """QuaternionArray(rpy=A).to_angles() == A; q2rpy(rpy2q(a)) == a (radians and degrees)"""
    r, p, y = _rpy(h)
    A = h.arr([[r, p, y]])
    out = QuaternionArray(rpy=A).to_angles()
    for k, e in enumerate((r, p, y)):
        h.check(f'QuaternionArray angle[{k}]', h.angle_eq(out[0, k], e))
    q = ori.rpy2q(h.arr([r, p, y]))
    h.out('rpy2q', q)
    o2 = ori.q2rpy(q)
    for k, e in enumerate((r, p, y)):
        h.check(f'q2rpy(rpy2q) angle[{k}]', h.angle_eq(o2[k], e))
    h.check('rpy2q == Quaternion(rpy=)', h.eq(q, np.array(Quaternion(rpy=h.arr([r, p, y])))))


@harness('C10/rpy.degrees', functions=[FO + 'rpy2q', FO + 'q2rpy'])
def rpy_degrees(h):
    """q2rpy(rpy2q(a_deg, in_deg=True), in_deg=True) == a_deg"""
    r = h.angle('roll', 'pm_pi', 'deg')
    p = h.angle('pitch', 'pm_halfpi', 'deg', lo=-89.9999, hi=89.9999)
    y = h.angle('yaw', 'pm_pi', 'deg')
    q = ori.rpy2q(h.arr([r, p, y]), in_deg=True)
    h.out('q', q)
    o = ori.q2rpy(q, in_deg=True)
    for k, e in enumerate((r, p, y)):
        h.check(f'angle[{k}] (degrees)', h.angle_eq(o[k], e, unit='deg'))


def _axis_angle(h):
    ax = h.unit_vec('n', 3)
    th = h.angle('theta', '0_pi', lo=1e-6, hi=3.1415916535897933)
    return ax, th


@harness('C10/axang.quaternion', functions=[FO + 'axang2quat', FO + 'quat2axang', FQ + 'Quaternion.to_axang'])
def axang_q(h):
    """quat2axang(axang2quat(n, t)) == (n, t) and Quaternion(...).to_axang() == (n, t) for 0 < t < pi"""
    ax, th = _axis_angle(h)
    q = ori.axang2quat(ax.copy(), th)
    h.out('q', q)
    h.check('|q| == 1', h.is_unit(q))
    a2, t2 = ori.quat2axang(q.copy())
    h.check('quat2axang axis', h.eq(a2, ax))
    h.check('quat2axang angle', h.angle_eq(t2, th))
    a3, t3 = Quaternion(q.copy()).to_axang()
    h.check('to_axang axis', h.eq(a3, ax))
    h.check('to_axang angle', h.angle_eq(t3, th))


@harness('C10/axang.matrix', functions=[FD + 'DCM.from_axisangle', FD + 'DCM.to_axisangle', FD + 'DCM.__new__'])
def axang_R(h):
    """DCM(axang=(n, t)).to_axisangle() == (n, t) for 0 < t < pi; the matrix is Rodrigues' formula"""
    ax, th = _axis_angle(h)
    # Rodrigues' matrix is a rotation: certified as a lemma on the very terms the constructor's SO(3) gate will test
    h.lemma_rotation(DCM.from_axisangle(DCM, ax.copy(), th))
    R = DCM(axang=(ax.copy(), th))
    h.out('R', np.array(R))
    h.check('proper rotation', h.is_rotation(np.array(R)))
    a2, t2 = R.to_axisangle()
    h.check('axis', h.eq(a2, ax))
    h.check('angle', h.angle_eq(t2, th))
    # against R_ref of the equivalent quaternion
    q = ori.axang2quat(ax.copy(), th)
    h.check('R == R_ref(axang2quat)', h.eq(np.array(R), rot.R_of_q(q)))


@harness('C10/exp-log', functions=[FQ + 'Quaternion.exponential', FQ + 'Quaternion.logarithm'], max_paths=32)
def exp_log(h):
    """exp(log q) == q for versors with rotation angle in (0, pi)"""
    ax, th = _axis_angle(h)
    q = ori.axang2quat(ax.copy(), th)
    Q_ = Quaternion(q.copy())
    lg = np.array(Q_.logarithm)
    h.out('log', lg)
    ex = np.array(Quaternion(lg, versor=False).exponential)
    h.out('exp(log q)', ex)
    h.check('exp(log q) == q', h.eq(ex, q))
    h.check('log q is pure', h.eq(lg[0], 0.0))


@harness('C10/power', functions=[FQ + 'Quaternion.__pow__'], max_paths=32)
def power(h):
    """q**1 == q, q**0 == 1, q**2 == q*q (rotation about the same axis by a times the angle)"""
    ax, th = _axis_angle(h)
    q = ori.axang2quat(ax.copy(), th)
    Q_ = Quaternion(q.copy())
    kf = h.kf('KF-C10-pow', h.true())
    p1 = np.array(Q_ ** 1)
    h.out('q**1', p1)
    h.check('q**1 == q (outside KF-C10-pow)', kf | h.eq(p1, q))
    p0 = np.array(Q_ ** 0)
    h.check('q**0 == 1 (outside KF-C10-pow)', kf | h.eq(p0, np.array([1.0, 0.0, 0.0, 0.0])))
    # the known defect only: __pow__ is e**(a*log q) taken element-wise
    lg = np.array(Q_.logarithm)
    h.check('known-defect characterisation: q**1 is the element-wise exponential of log q',
            h.eq(p1[0], 1.0) & h.eq(np.array(Q_ ** 0)[1:], np.array([1.0, 1.0, 1.0])))


SEQS_QUICK = ['x', 'y', 'z', 'xy', 'zx', 'zyx', 'xyz', 'zxz', 'yxy']
SEQS_ALL = [''.join(s) for n in (1, 2, 3) for s in itertools.product('xyz', repeat=n)]
ELEM = dict(x=rot.Rx, y=rot.Ry, z=rot.Rz)


def _expected(h, seq, angs):
    R = np.identity(3).astype(object) if h.sym else np.identity(3)
    for a, ang in zip(seq, angs):
        c, s = _cs(h, ang)
        E = ELEM[a](c, s)
        R = R @ (E if h.sym else E.astype(float))
    return R


def _cs(h, ang):
    if h.sym:
        from symnp import trig
        from symnp.core import SR
        c, s = trig.cossin(ang)
        return SR(c), SR(s)
    return np.cos(ang), np.sin(ang)


def _mk_seq(tier, seqs):
    for seq in seqs:
        @harness(f'C10/euler.{seq}', tiers=tier, functions=[FD + 'rotation', FD + 'rot_seq', FD + 'DCM.__new__'], max_paths=64)
        def hf(h, seq=seq):
            angs = [h.angle(f'a{i}', 'pm_pi') for i in range(len(seq))]
            for a in angs:
                # away from the isclose(angle*DEG2RAD % 2pi, 0) shortcut band, which rotation() applies to radians too:
                # |angle| >= 1e-4 rad (inside the band the returned identity differs from the rotation by < 1e-6: tolerance)
                h.assume(h.ge(a, 1e-4) | h.le(a, -1e-4))
            exp = _expected(h, seq, angs)
            R = dcmmod.rot_seq(seq, list(angs))
            h.out('rot_seq', R)
            h.check(f'rot_seq({seq}) == ordered product', h.eq(R, exp))
            D = DCM(euler=(seq, list(angs)))
            h.check(f'DCM(euler=({seq}, ...)) == ordered product', h.eq(np.array(D), exp))
            if len(seq) == 1:
                R1 = dcmmod.rotation(seq, angs[0])
                h.check('rotation() == elementary rotation', h.eq(R1, exp))
                Dk = DCM(**{seq: angs[0]})
                h.check(f'DCM({seq}=a)', h.eq(np.array(Dk), exp))
            if seq == 'zyx':
                Dr = DCM(rpy=h.arr(list(angs)))
                h.check('DCM(rpy=a) == Rz(a0) Ry(a1) Rx(a2)', h.eq(np.array(Dr), exp))
            if seq == 'xyz':
                Dx = DCM(x=angs[0], y=angs[1], z=angs[2])
                h.check('DCM(x=,y=,z=) == Rx Ry Rz', h.eq(np.array(Dx), exp))
        hf.__doc__ = f"Euler sequence '{seq}': rot_seq / DCM(euler=) / keyword constructors equal the ordered product of elementary rotations"


_mk_seq(('quick', 'thorough'), SEQS_QUICK)
_mk_seq(('thorough',), [s for s in SEQS_ALL if s not in SEQS_QUICK])


@harness('C10/euler.degrees', functions=[FD + 'rotation', FD + 'rot_seq'], max_paths=64)
def euler_degrees(h):
    """rotation(ax, a, degrees=True) and DCM(x=a, degrees=True) are the elementary rotations of a degrees"""
    a = h.angle('a', 'pm_pi', 'deg')
    h.assume(h.ge(a, 0.01) | h.le(a, -0.01))
    for axn in 'xyz':
        exp = _expected(h, axn, [a * (np.pi / 180.0)])
        h.check(f'rotation({axn}, degrees=True)', h.eq(dcmmod.rotation(axn, a, degrees=True), exp))
        h.check(f'DCM({axn}=a, degrees=True)', h.eq(np.array(DCM(**{axn: a, 'degrees': True})), exp))


@harness('C10/DCM.log', functions=[FD + 'DCM.log'], max_paths=32)
def dcm_log(h):
    """log R is skew-symmetric with Frobenius norm sqrt(2) * angle for 0 <= angle < pi"""
    ax = h.unit_vec('n', 3)
    th = h.angle('theta', '0_pi', hi=3.1415916535897933)
    q = ori.axang2quat(ax.copy(), th)
    R = DCM(rot.R_of_q(q))
    L = R.log
    h.out('log', np.array(L))
    h.check('skew-symmetric', h.eq(np.array(L) + np.array(L).T, np.zeros((3, 3))))
    fro2 = 0.0
    for e in np.array(L).ravel():
        fro2 = fro2 + e * e
    # KF-C10-dcm-log: isclose(trace, 3) returns the zero matrix for angles up to ~7.7e-3 rad
    tr = 4.0 * q[0] * q[0] - 1.0
    small = h.kf('KF-C10-dcm-log', h.ge(tr, 3.0 - 3.001e-5))
    h.check('|log R|_F^2 == 2 theta^2 (outside KF-C10-dcm-log)', small | h.eq(fro2, 2.0 * th * th))
    h.check('inside the shortcut band the result is the zero matrix (known defect only)',
            h.lt(tr, 3.0 - 2.999e-5) | h.eq(np.array(L), np.zeros((3, 3))))
