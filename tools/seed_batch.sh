#!/bin/bash
# usage: seed_batch.sh PID...   (evaluates out/m1..m3 of /tmp/wt_<PID>)
cd /verif
for p in "$@"; do for i in 1 2 3; do
  [ -d /tmp/wt_$p/out/m$i ] || continue
  timeout 2400 .venv/bin/python tools/seed_eval.py $p /tmp/wt_$p /tmp/wt_$p/out/m$i ${p}-m$i 2>&1 | python3 -c "import sys,json
try:
    d=json.load(sys.stdin); print(d['id'], 'confirmed' if d['confirmed'] else 'NOT-CONFIRMED', 'DETECTED' if d.get('detected') else 'MISSED', d.get('check_exit'), d.get('wall_s'), d.get('violations'))
except Exception as e: print('$p-m$i', 'ERROR', e)"
done; done
