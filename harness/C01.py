"""C01 - quaternions and rotation matrices are one rotation group; six copies of the formula agree."""
import numpy as np
import ahrs
from ahrs import Quaternion, QuaternionArray, DCM
from ahrs.common import orientation as ori
from symnp.harness import harness
from reference import rot

PROPERTY = dict(
    id='C01',
    explanation="Domain: p, q in R^4 with |p|^2=|q|^2=1 (and arbitrary non-zero q for the normalising routes), v in R^3. "
                "Oracles: textbook R_ref(q) and Hamilton product written in reference/rot.py. The homomorphism law is "
                "decided as a chain: route == R_ref (per route), product entry point == reference product, "
                "|p*q| = 1, and the lemma R_ref(p*q) = R_ref(p) R_ref(q); plus a direct end-to-end query per route (thorough).",
    bounds="no loop/size bound: all functions are straight-line; batch routes with N=2 rows",
    outside=["floating-point rounding; denormal-component and near-antipodal float behaviour (exact reals are scale-free)"],
    assumptions=["division definedness (|q| != 0) is an obligation, not an assumption"],
)

F_Q = ['ahrs.common.quaternion:Quaternion.to_DCM', 'ahrs.common.quaternion:Quaternion.__new__']


def _std(h, R, q, tag):
    h.out(tag, R)
    h.check(f"{tag} == R_ref(q)", h.eq(R, rot.R_of_q(q)))


@harness('C01/Quaternion.to_DCM', functions=F_Q + ['ahrs.common.quaternion:Quaternion.conjugate'])
def quat_to_dcm(h):
    """Quaternion(q).to_DCM() is R_ref(q), proper rotation, R(-q)=R(q), R(q*)=R^T"""
    q = h.unit_quat('q')
    R = Quaternion(q.copy()).to_DCM()
    _std(h, R, q, 'Quaternion.to_DCM')
    h.check('proper rotation', h.is_rotation(R))
    Rn = Quaternion(-q).to_DCM()
    h.check('R(-q) == R(q)', h.eq(Rn, R))
    Rc = Quaternion(Quaternion(q.copy()).conjugate).to_DCM()
    h.check('R(q*) == R^T', h.eq(Rc, R.T))


@harness('C01/QuaternionArray.to_DCM', functions=['ahrs.common.quaternion:QuaternionArray.to_DCM',
                                                   'ahrs.common.quaternion:QuaternionArray.__new__',
                                                   'ahrs.common.quaternion:QuaternionArray.is_versor'], bounds='N=2 rows')
def qarray_to_dcm(h):
    """QuaternionArray([q, p]).to_DCM() rows are R_ref(q), R_ref(p)"""
    q = h.unit_quat('q')
    p = h.unit_quat('p')
    R = QuaternionArray(np.array([q, p])).to_DCM()
    h.check('shape', h.shape_is(R, (2, 3, 3)))
    h.out('R', R)
    h.check("row0 == R_ref(q)", h.eq(R[0], rot.R_of_q(q)))
    h.check("row1 == R_ref(p)", h.eq(R[1], rot.R_of_q(p)))
    h.check('row0 proper', h.is_rotation(R[0]))
    C = QuaternionArray(np.array([q, p])).conjugate()
    h.check('conjugate rows', h.eq(C, np.array([rot.qconj(q), rot.qconj(p)])))


@harness('C01/DCM.from_quaternion', functions=['ahrs.common.dcm:DCM.from_quaternion', 'ahrs.common.dcm:DCM.__new__',
                                                'ahrs.common.dcm:_assert_SO3'], bounds='N=2 rows for the batch branch')
def dcm_from_q(h):
    """DCM(q=q), DCM.from_quaternion single and (2,4) batch are R_ref"""
    q = h.unit_quat('q')
    p = h.unit_quat('p')
    R1 = DCM(q=q.copy())
    _std(h, np.array(R1), q, 'DCM(q=q)')
    R2 = DCM.from_quaternion(q.copy())
    _std(h, R2, q, 'DCM.from_quaternion(q)')
    RB = DCM.from_quaternion(np.array([q, p]))
    h.check('batch shape', h.shape_is(RB, (2, 3, 3)))
    h.check('batch row0', h.eq(RB[0], rot.R_of_q(q)))
    h.check('batch row1', h.eq(RB[1], rot.R_of_q(p)))
    R3 = DCM.from_q(DCM, q.copy())
    _std(h, R3, q, 'DCM.from_q(q)')


@harness('C01/q2R', functions=['ahrs.common.orientation:q2R'], bounds='N=2 rows for the batch branch')
def q2R_all(h):
    """q2R versions 1 and 2, single and batch, are R_ref"""
    q = h.unit_quat('q')
    p = h.unit_quat('p')
    for ver in (1, 2):
        R = ori.q2R(q.copy(), version=ver)
        _std(h, R, q, f'q2R(v{ver})')
        RB = ori.q2R(np.array([q, p]), version=ver)
        h.check(f'q2R(v{ver}) batch row0', h.eq(RB[0], rot.R_of_q(q)))
        h.check(f'q2R(v{ver}) batch row1', h.eq(RB[1], rot.R_of_q(p)))
    h.check('q2R(v2) proper rotation', h.is_rotation(ori.q2R(q.copy(), version=2)))


@harness('C01/products', functions=['ahrs.common.quaternion:Quaternion.product', 'ahrs.common.quaternion:Quaternion.__mul__',
                                     'ahrs.common.quaternion:Quaternion.__matmul__', 'ahrs.common.orientation:q_prod'])
def products(h):
    """every product entry point equals the reference Hamilton product; |pq| = 1"""
    p = h.unit_quat('p')
    q = h.unit_quat('q')
    ref = rot.qmul(p, q)
    P_, Q_ = Quaternion(p.copy()), Quaternion(q.copy())
    for tag, val in (('product', P_.product(Q_)), ('*', P_ * Q_), ('@', P_ @ Q_), ('q_prod', ori.q_prod(p.copy(), q.copy())),
                     ('product(array)', P_.product(q.copy()))):
        h.out(tag, np.array(val))
        h.check(f'{tag} == p (x) q', h.eq(np.array(val), ref))
    h.check('|p (x) q| == 1', h.is_unit(P_ * Q_))


@harness('C01/lemma.homomorphism', kind='lemma')
def lemma_hom(h):
    """cut lemma on the oracle: R_ref(p (x) q) = R_ref(p) R_ref(q) for unit p, q"""
    p = h.unit_quat('p')
    q = h.unit_quat('q')
    lhs = rot.R_of_q(rot.qmul(p, q))
    rhs = rot.R_of_q(p) @ rot.R_of_q(q)
    h.check('R_ref(pq) == R_ref(p)R_ref(q)', h.eq(lhs, rhs))


@harness('C01/homomorphism.direct', tiers=('thorough',),
         functions=F_Q + ['ahrs.common.quaternion:Quaternion.product'])
def hom_direct(h):
    """end to end on the real code: Quaternion(p*q).to_DCM() == Quaternion(p).to_DCM() @ Quaternion(q).to_DCM()"""
    p = h.unit_quat('p')
    q = h.unit_quat('q')
    P_, Q_ = Quaternion(p.copy()), Quaternion(q.copy())
    pq = Quaternion(P_ * Q_)
    h.check('R(pq) == R(p)R(q)', h.eq(pq.to_DCM(), P_.to_DCM() @ Q_.to_DCM()))
    RB = ori.q2R(np.array([np.array(P_ * Q_), p]), version=2)
    h.check('q2R batch v2 R(pq) == R(p)R(q)', h.eq(RB[0], ori.q2R(p.copy(), 2) @ ori.q2R(q.copy(), 2)))


@harness('C01/rotate', functions=['ahrs.common.quaternion:Quaternion.rotate', 'ahrs.common.orientation:q_rot',
                                   'ahrs.common.orientation:q_conj'])
def rotate(h):
    """rotate(v) = R v = vec(q v q*); q_rot is the inverse rotation R^T v; q_conj"""
    q = h.unit_quat('q')
    v = h.vec('v', 3)
    Rv = rot.matvec(rot.R_of_q(q), v)
    out = Quaternion(q.copy()).rotate(v.copy())
    h.out('rotate', out)
    h.check('rotate(v) == R_ref v', h.eq(out, Rv))
    h.check('rotate(v) == vec(q v q*)', h.eq(out, rot.rotate(q, v)))
    out2 = ori.q_rot(q.copy(), v.copy())
    h.out('q_rot', out2)
    h.check('q_rot(q, v) == R_ref^T v', h.eq(out2, rot.matvec(rot.R_of_q(q).T, v)))
    h.check('q_conj', h.eq(ori.q_conj(q.copy()), rot.qconj(q)))
    # 3xN input
    V = np.array([v, 2.0 * v]).T
    outN = Quaternion(q.copy()).rotate(V)
    h.check('rotate(3xN) col0', h.eq(outN[:, 0], Rv))
    h.check('rotate(3xN) col1', h.eq(outN[:, 1], 2.0 * Rv))


@harness('C01/nonunit.routes', tiers=('thorough',),
         functions=F_Q + ['ahrs.common.dcm:DCM.from_quaternion', 'ahrs.common.orientation:q2R'])
def nonunit(h):
    """arbitrary non-zero q: each route normalises; R |q|^2 == R_hom(q)"""
    q = h.vec('q', 4, -4, 4)
    n2 = q[0] * q[0] + q[1] * q[1] + q[2] * q[2] + q[3] * q[3]
    h.assume(h.ge(n2, 0.01))
    Rh = rot.R_of_q_hom(q)
    for tag, R in (('Quaternion', Quaternion(q.copy()).to_DCM()), ('DCM.from_quaternion', DCM.from_quaternion(q.copy())),
                   ('q2R v1', ori.q2R(q.copy(), 1)), ('q2R v2', ori.q2R(q.copy(), 2)),
                   ('DCM.from_quaternion batch', DCM.from_quaternion(np.array([q, q]))[1]),
                   ('q2R v2 batch', ori.q2R(np.array([q, q]), 2)[0])):
        h.out(tag, R)
        h.check(f'{tag}: R*|q|^2 == R_hom(q)', h.eq(R * n2, Rh))
