#!/bin/bash
# usage: seed_round2.sh PID...   (evaluates /tmp/wt2_<PID>/out/m1..m3 as <PID>-r2m<i>)
cd /verif
for p in "$@"; do for i in 1 2 3; do
  src=/tmp/wt2_$p/out/m$i; [ -d $src ] || continue
  timeout 3000 .venv/bin/python tools/seed_eval.py $p /tmp/wt2_$p $src ${p}-r2m$i 2>&1 | python3 -c "import sys,json
try:
    d=json.load(sys.stdin); print(d['id'], 'confirmed' if d['confirmed'] else 'NOT-CONFIRMED', 'DETECTED' if d.get('detected') else 'MISSED', d.get('check_exit'), d.get('wall_s'), d.get('violations'))
except Exception as e: print('$p-r2m$i', 'ERROR', e)"
done; done
