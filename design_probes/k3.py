import z3, time
c,s=z3.Reals('c s')
cp=[z3.RealVal(1), c]; sp=[z3.RealVal(0), s]
for m in range(2,13):
    sp.append(sp[1]*cp[m-1]+cp[1]*sp[m-1]); cp.append(cp[1]*cp[m-1]-sp[1]*sp[m-1])
T=[z3.RealVal(1), c]; U=[z3.RealVal(1), 2*c]
for m in range(2,13): T.append(2*c*T[m-1]-T[m-2]); U.append(2*c*U[m-1]-U[m-2])
for m in [4,8,12]:
    for nm,a,b in [('cos',cp[m],T[m]),('sin',sp[m],s*U[m-1])]:
        sv=z3.Solver(); sv.set('timeout',60000); sv.add(c*c+s*s==1, a!=b)
        t=time.time(); r=sv.check(); print(m,nm,r,round(time.time()-t,2))
# Legendre-type bivariate: P[m,n] recursion (Gauss normalised) vs closed form for n=m: cos^m ; and P[0,n] Legendre polynomial in s
