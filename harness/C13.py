"""C13 - a dropped-out sensor sample never corrupts a recursive filter."""
import numpy as np
from ahrs import filters as flt
from symnp.harness import harness

PROPERTY = dict(
    id='C13',
    explanation="Inductive step with the faulty sample exactly zero: acc = 0 and/or mag = 0 (and gyr = 0) with everything else "
                "symbolic, from an arbitrary valid state (unit quaternion, free bias; default covariances). Allowed outcomes: "
                "ValueError, or a defined unit quaternion together with a defined post-state; then 'any later sample' is C03's "
                "step from a valid state. For the filters that only offer a batch constructor (FKF, Complementary) the dropout "
                "is a zero row in an N = 3 history with symbolic neighbours. A magnetometer-only dropout must be refused or leave "
                "the heading to the gyroscope; the filter's numeric settings must be what they were before the dropout; "
                "updateMARG(mag = 0, dt) must be the IMU step for the same dt.",
    bounds="one faulty step from an arbitrary valid state; N = 3 histories with the dropout in the middle row",
    outside=["the recovery clause ('returns to within its normal tolerance afterwards') is a convergence statement (see C05) and "
             "is not claimed", "rounding"],
    wall_limit=dict(quick=300, thorough=1200),
)
FF = 'ahrs.filters.'
Z = np.zeros(3)


def _nz(h, name, lo=-3, hi=3, min2=0.01):
    v = h.vec(name, 3, lo, hi)
    h.assume(h.ge(v[0] * v[0] + v[1] * v[1] + v[2] * v[2], min2))
    return v


def _config(f):
    """the filter's plain numeric settings (gains, periods, thresholds): a dropout must not alter them"""
    return {k: v for k, v in vars(f).items() if isinstance(v, (int, float)) and not isinstance(v, bool)}


def _config_unchanged(h, tag, f, cfg):
    now = _config(f)
    for k, v in cfg.items():
        h.check(f'{tag}: setting {k} unchanged', h.eq(now[k], v) if k in now else h.false())


def _ok(h, tag, fn):
    """fn() must raise ValueError or return a defined unit quaternion"""
    raised, out = h.raises(fn, (ValueError,))
    if raised:
        h.note(f'{tag}: refuses the sample with ValueError')
        h.check(f'{tag}: refused with ValueError', h.true())
        return None
    out = np.array(out)
    h.out(tag, out)
    h.check(f'{tag}: shape (4,)', h.shape_is(out, (4,)))
    h.check(f'{tag}: unit norm', h.is_unit(out))
    return out


@harness('C13/Madgwick', functions=[FF + 'madgwick:Madgwick.updateIMU', FF + 'madgwick:Madgwick.updateMARG'], max_paths=32)
def madgwick(h):
    """Madgwick with zeroed acc / mag / gyr samples"""
    q = h.unit_quat('q')
    g, a, m = _nz(h, 'g'), _nz(h, 'a'), _nz(h, 'm')
    f = flt.Madgwick()
    cfg = _config(f)
    _ok(h, 'updateIMU(acc=0)', lambda: f.updateIMU(q.copy(), g.copy(), Z.copy()))
    _ok(h, 'updateIMU(gyr=0)', lambda: f.updateIMU(q.copy(), Z.copy(), a.copy()))
    _ok(h, 'updateMARG(acc=0)', lambda: f.updateMARG(q.copy(), g.copy(), Z.copy(), m.copy()))
    _ok(h, 'updateMARG(acc=0, mag=0)', lambda: f.updateMARG(q.copy(), g.copy(), Z.copy(), Z.copy()))
    _ok(h, 'updateMARG(gyr=0)', lambda: f.updateMARG(q.copy(), Z.copy(), a.copy(), m.copy()))
    _config_unchanged(h, 'Madgwick after the dropouts', f, cfg)


@harness('C13/Madgwick.mag0', functions=[FF + 'madgwick:Madgwick.updateMARG'], max_paths=32)
def madgwick_mag0(h):
    """Madgwick.updateMARG with a zeroed magnetometer sample falls back to the IMU update (outside its known zero-gradient set)"""
    q = h.unit_quat('q')
    g, a = _nz(h, 'g'), _nz(h, 'a')
    h.definedness = 'assume'      # the IMU step's own definedness is C03's subject (KF-C03-madgwick-zero-gradient)
    f = flt.Madgwick(gain=0.2)
    cfg = _config(f)
    _ok(h, 'updateMARG(mag=0)', lambda: f.updateMARG(q.copy(), g.copy(), a.copy(), Z.copy()))
    _config_unchanged(h, 'Madgwick after updateMARG(mag=0)', f, cfg)
    # the skipped correction leaves the IMU step, with the caller's time step
    dt = h.real('dt', 0.001, 0.1)
    for tag, mk in (('Madgwick', lambda: flt.Madgwick(gain=0.2)), ('Mahony', lambda: flt.Mahony())):
        o1 = np.array(mk().updateMARG(q.copy(), g.copy(), a.copy(), Z.copy(), dt=dt))
        o2 = np.array(mk().updateIMU(q.copy(), g.copy(), a.copy(), dt=dt))
        h.check(f'{tag}.updateMARG(mag=0, dt) == {tag}.updateIMU(dt): the same step with the time step given', h.eq(o1, o2))


@harness('C13/Mahony', functions=[FF + 'mahony:Mahony.updateIMU', FF + 'mahony:Mahony.updateMARG'], max_paths=32)
def mahony(h):
    """Mahony with zeroed acc / mag / gyr samples: unit output, defined bias afterwards"""
    q = h.unit_quat('q')
    g, a, m = _nz(h, 'g'), _nz(h, 'a'), _nz(h, 'm')
    b = h.vec('b', 3, -1, 1)
    f = flt.Mahony(b0=b.copy())
    _ok(h, 'updateIMU(acc=0)', lambda: f.updateIMU(q.copy(), g.copy(), Z.copy()))
    _ok(h, 'updateIMU(gyr=0)', lambda: f.updateIMU(q.copy(), Z.copy(), a.copy()))
    _ok(h, 'updateMARG(acc=0)', lambda: f.updateMARG(q.copy(), g.copy(), Z.copy(), m.copy()))
    _ok(h, 'updateMARG(acc=0, mag=0)', lambda: f.updateMARG(q.copy(), g.copy(), Z.copy(), Z.copy()))
    h.out('bias', f.b)
    h.check('bias unchanged by skipped corrections', h.eq(f.b, b))


@harness('C13/AQUA', functions=[FF + 'aqua:AQUA.updateIMU', FF + 'aqua:AQUA.updateMARG'], max_paths=32)
def aqua(h):
    """AQUA with zeroed acc / gyr samples"""
    q = h.unit_quat('q')
    g, a, m = _nz(h, 'g'), _nz(h, 'a'), _nz(h, 'm')
    f = flt.AQUA()
    _ok(h, 'updateIMU(acc=0)', lambda: f.updateIMU(q.copy(), g.copy(), Z.copy()))
    _ok(h, 'updateIMU(gyr=0)', lambda: f.updateIMU(q.copy(), Z.copy(), a.copy()))
    _ok(h, 'updateMARG(acc=0)', lambda: f.updateMARG(q.copy(), g.copy(), Z.copy(), m.copy()))
    _ok(h, 'updateMARG(gyr=0)', lambda: f.updateMARG(q.copy(), Z.copy(), a.copy(), m.copy()))


@harness('C13/EKF-Fourati-ROLEQ', functions=[FF + 'ekf:EKF.update', FF + 'fourati:Fourati.update', FF + 'roleq:ROLEQ.update',
                                            FF + 'roleq:ROLEQ.oleq'], max_paths=32)
def ekf_fourati_roleq(h):
    """EKF (returns the prior / raises), Fourati (raises), ROLEQ (returns the propagated quaternion) on zeroed samples"""
    q = h.unit_quat('q')
    g, a, m = _nz(h, 'g'), _nz(h, 'a'), _nz(h, 'm')
    e = flt.EKF(magnetic_ref=60.0)
    _ok(h, 'EKF.update(acc=0)', lambda: e.update(q.copy(), g.copy(), Z.copy()))
    _ok(h, 'EKF.update(acc, mag=0)', lambda: e.update(q.copy(), g.copy(), a.copy(), Z.copy()))
    h.out('EKF.P', e.P)
    fo = flt.Fourati(magnetic_dip=60.0)
    _ok(h, 'Fourati.update(acc=0)', lambda: fo.update(q.copy(), g.copy(), Z.copy(), m.copy()))
    _ok(h, 'Fourati.update(mag=0)', lambda: fo.update(q.copy(), g.copy(), a.copy(), Z.copy()))
    r = flt.ROLEQ(magnetic_ref=np.array([0.6, 0.0, 0.8]))
    _ok(h, 'ROLEQ.update(acc=0)', lambda: r.update(q.copy(), g.copy(), Z.copy(), m.copy()))
    _ok(h, 'ROLEQ.update(mag=0)', lambda: r.update(q.copy(), g.copy(), a.copy(), Z.copy()))


@harness('C13/UKF', functions=[FF + 'ukf:UKF.update'], max_paths=16,
         bounds='pre-state pinned to the identity quaternion (stratum), default covariance')
def ukf(h):
    """UKF.update with a zeroed accelerometer sample (level state stratum): ValueError or a defined unit quaternion and covariance"""
    g = _nz(h, 'g')
    h.definedness = 'assume'        # definedness of the ordinary step is C03's subject; here: the zero sample
    f = flt.UKF()
    out = _ok(h, 'UKF.update(acc=0)', lambda: f.update(np.array([1.0, 0.0, 0.0, 0.0]), g.copy(), Z.copy()))
    if out is not None:
        h.out('P', f.P)


@harness('C13/Complementary', functions=[FF + 'complementary:Complementary._compute_all', FF + 'complementary:Complementary.am_estimation'],
         max_paths=16, bounds='N=3, dropout in the middle row')
def complementary(h):
    """Complementary over a 3-sample history whose middle accelerometer (and magnetometer) row is zero: ValueError or defined angles"""
    g = np.array([_nz(h, f'g{i}') for i in range(3)])
    a = np.array([_nz(h, 'a0'), Z.copy(), _nz(h, 'a2')], dtype=object if h.sym else float)
    m = np.array([_nz(h, f'm{i}') for i in range(3)])
    for tag, mk in (('acc only', lambda: flt.Complementary(g.copy(), a.copy())),
                    ('acc + mag', lambda: flt.Complementary(g.copy(), a.copy(), m.copy()))):
        raised, f = h.raises(mk, (ValueError,))
        if raised:
            h.check(f'{tag}: refused with ValueError', h.true())
            continue
        h.out(f'W {tag}', f.W)
        h.check(f'{tag}: W shape', h.shape_is(f.W, (3, 3)))
        for i in range(3):
            for k in range(3):
                h.check(f'{tag}: W[{i},{k}] defined', h.eq(f.W[i, k], f.W[i, k]))
    # magnetometer-only dropout: refused, or that sample's heading correction is skipped (pure gyroscope propagation of the yaw)
    a_ok = np.array([_nz(h, 'a0'), _nz(h, 'a1'), _nz(h, 'a2')])
    m_drop = np.array([_nz(h, 'm0'), Z.copy(), _nz(h, 'm2')], dtype=object if h.sym else float)
    raised, f = h.raises(lambda: flt.Complementary(g.copy(), a_ok.copy(), m_drop.copy()), (ValueError,))
    if raised:
        h.check('mag only: refused with ValueError', h.true())
    else:
        W = np.array(f.W)
        h.check('mag only: accepted, so the dropped sample does not pull the heading (yaw propagated by the gyroscope alone)',
                h.eq(W[1, 2], W[0, 2] + g[1, 2] * f.Dt))


@harness('C13/FKF', functions=[FF + 'fkf:FKF._compute_all', FF + 'fkf:FKF.measurement_quaternion_acc_mag'], max_paths=16,
         bounds='N=3, dropout in the middle row', tiers=('quick', 'thorough'))
def fkf(h):
    """FKF over a 3-sample history whose middle accelerometer row is zero: ValueError or defined rows"""
    g = np.array([_nz(h, f'g{i}') for i in range(3)])
    a = np.array([_nz(h, 'a0'), Z.copy(), _nz(h, 'a2')], dtype=object if h.sym else float)
    m = np.array([_nz(h, f'm{i}') for i in range(3)])
    h.definedness = 'check'
    raised, f = h.raises(lambda: flt.FKF(g.copy(), a.copy(), m.copy()), (ValueError,))
    if raised:
        h.check('refused with ValueError', h.true())
        return
    Q = np.array(f.Q)
    h.out('Q', Q)
    h.check('Q shape', h.shape_is(Q, (3, 4)))
