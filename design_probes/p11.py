import sys; sys.path.insert(0,'/repo'); sys.path.insert(0,'/tmp/probe')
import time, z3, numpy as _np, traceback
from proto import *
import trig
from trig import TH
from portfolio import run_portfolio
import ahrs
import ahrs.common.orientation as ori, ahrs.common.quaternion as quat, ahrs.common.dcm as dcm, ahrs.utils.core as core, ahrs.common.mathfuncs as mf
import ahrs.filters.mahony as mah
patch([ori, quat, dcm, core, mf, mah])
qv=[z3.Real(n) for n in ['qw','qx','qy','qz']]; gv=[z3.Real(n) for n in ['gx','gy','gz']]
pre=[sum(t*t for t in qv)==1] + [z3.And(g>=-z3.RealVal('0.001'), g<=z3.RealVal('0.001')) for g in gv]
def run():
    TH.reset()
    f=mah.Mahony(k_I=0.0001)   # k_I must be >0 for the validator; tiny integral gain
    q=_np.array([SR(t) for t in qv],dtype=object); g=_np.array([SR(t) for t in gv],dtype=object)
    a=_np.array([0.0,0.0,1.0],dtype=object)
    CTX.pc += pre
    return f.updateIMU(q,g,a)
paths=explore(run)
print('paths',len(paths))
w,x,y,z=qv
for i,(pc,defs,oblig,(kind,val)) in enumerate(paths):
    if kind=='exc': print('EXC',repr(val)); continue
    o=[lift(e) for e in val]
    c0 = 1-2*(x*x+y*y)          # cos(tilt error) before  (R^T e3 . e3)
    c1 = 1-2*(o[1]*o[1]+o[2]*o[2])
    # error between 5 and 175 degrees: cos in [-0.9962, 0.9962]
    dom=[c0<=z3.RealVal('0.9962'), c0>=-z3.RealVal('0.9962')]
    print(i,'descent (cos increases, up to 1e-5 noise)', run_portfolio(pc+defs+dom+[c1 < c0 - z3.RealVal('1e-5')], 120, 'desc'))
    print(i,'descent, gyro=(1e-3,0,0)', run_portfolio(pc+defs+dom+[c1 < c0 - z3.RealVal('1e-5'), gv[0]==z3.RealVal('0.001'), gv[1]==0, gv[2]==0], 120, 'desc2'))
