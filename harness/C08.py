"""C08 - gyro integration is exact for constant rates, of the stated order otherwise."""
from fractions import Fraction as Fr
from math import factorial
import numpy as np
from ahrs import Quaternion, QuaternionArray
from ahrs import filters as flt
from symnp.harness import harness
from reference import rot

PROPERTY = dict(
    id='C08',
    explanation="(a) closed form: symbolic rate w (|w| a certified square root), dt > 0, unit q0; n = 1, 2, 3 applications of "
                "AngularRate.update(method='closed') equal q0 (x) (cos(n|w|dt/2), sin(n|w|dt/2) w/|w|) with the angle |w|dt/2 an "
                "opaque angle atom (multiple-angle polynomials); the same through the constructor (N = 4 samples). (b) series of "
                "order k = 0..6: the returned quaternion equals normalise(T_k q) with T_k = sum_{i<=k} (dt/2 Omega)^i / i! built "
                "in the harness with matrix products, which is the algebraic content of 'order k' (T_k agrees with the "
                "exponential to O((|w|dt)^(k+1)) by Taylor's theorem). (c) dead reckoning: with a null accelerometer sample "
                "Madgwick, Mahony, AQUA (conjugate convention), EKF.f and ROLEQ.attitude_propagation all return "
                "normalise(q + dt/2 q (x) (0, w)).",
    bounds="n <= 3 steps; orders 0..6 (quick: 0..3); N = 4 samples through the constructor",
    outside=["accumulated rounding over hundreds of steps", "the O(theta^(k+1)) remainder itself (Taylor's theorem, not re-proved)",
             "the vectorised 'integration' method (Euler-angle accumulation is not an exact integral)",
             "angular_velocities -> re-integration to first order (attempted algebraic identity only)"],
)
FA = 'ahrs.filters.angular:AngularRate.'


def _omega_mat(g):
    return np.array([[0.0, -g[0], -g[1], -g[2]], [g[0], 0.0, g[2], -g[1]], [g[1], -g[2], 0.0, g[0]], [g[2], g[1], -g[0], 0.0]],
                    dtype=object if not isinstance(g[0], float) else float)


def _rate(h):
    g = h.vec('w', 3, -10, 10)
    n2 = g[0] * g[0] + g[1] * g[1] + g[2] * g[2]
    h.assume(h.ge(n2, 1e-4))
    return g


@harness('C08/closed', functions=[FA + 'update'], max_paths=8)
def closed(h):
    """closed form, n = 1, 2, 3 steps at constant rate: q_n == q0 (x) (cos(n a), sin(n a) w/|w|), a = |w| dt / 2"""
    q0 = h.unit_quat('q')
    g = _rate(h)
    dt = h.real('dt', 1e-3, 5e-2)
    f = flt.AngularRate()
    q = q0.copy()
    outs = []
    for n in range(1, 4):
        q = f.update(q.copy(), g.copy(), method='closed', dt=dt)
        outs.append(np.array(q))
    h.out('q1', outs[0])
    if h.sym:
        from symnp import trig, core
        from symnp.core import SR
        w = core.sym_sqrt(g[0] * g[0] + g[1] * g[1] + g[2] * g[2])
        a = w * dt / 2.0
        for n in range(1, 4):
            c, s = trig.cossin(a * n)
            r = np.array([SR(c), SR(s) * g[0] / w, SR(s) * g[1] / w, SR(s) * g[2] / w], dtype=object)
            h.check(f'n={n}: q_n == q0 (x) r(n |w| dt)', h.eq(outs[n - 1], rot.qmul(q0, r)))
            h.check(f'n={n}: unit', h.is_unit(outs[n - 1]))
    else:
        w = float(np.linalg.norm(g))
        for n in range(1, 4):
            a = n * w * dt / 2.0
            r = np.array([np.cos(a), *(np.sin(a) * g / w)])
            h.check(f'n={n}: q_n == q0 (x) r(n |w| dt)', h.eq(outs[n - 1], rot.qmul(q0, r)))
            h.check(f'n={n}: unit', h.is_unit(outs[n - 1]))


@harness('C08/closed.constructor', functions=[FA + '_compute_all', FA + 'update', FA + '__init__'], max_paths=8, bounds='N=4')
def closed_ctor(h):
    """AngularRate(gyr (4,3) constant rows, q0, method='closed').Q[t] == streaming update"""
    q0 = h.unit_quat('q')
    g = _rate(h)
    G = np.array([g, g, g, g])
    f = flt.AngularRate(G.copy(), q0=q0.copy(), method='closed', Dt=0.01)
    Q = np.array(f.Q)
    h.check('shape', h.shape_is(Q, (4, 4)))
    h.check('Q[0] == q0', h.eq(Q[0], q0))
    s = flt.AngularRate(Dt=0.01)
    q = q0.copy()
    for t in range(1, 4):
        q = np.array(s.update(q.copy(), g.copy(), method='closed'))
        h.check(f'Q[{t}] == streamed', h.eq(Q[t], q))
    h.out('Q', Q)


def _mk_series(k, tiers):
    @harness(f'C08/series.order{k}', tiers=tiers, functions=[FA + 'update'], max_paths=8, bounds=f'order {k}')
    def hf(h, k=k):
        q0 = h.unit_quat('q')
        g = _rate(h)
        dt = h.real('dt', 1e-3, 5e-2)
        out = np.array(flt.AngularRate().update(q0.copy(), g.copy(), method='series', order=k, dt=dt))
        h.out('out', out)
        S = (0.5 * dt) * _omega_mat(g)
        T = np.identity(4).astype(object) if h.sym else np.identity(4)
        Pw = np.identity(4).astype(object) if h.sym else np.identity(4)
        for i in range(1, k + 1):
            Pw = Pw @ S
            T = T + Pw * (Fr(1, factorial(i)) if h.sym else 1.0 / factorial(i))
        v = T @ q0
        n2 = v[0] * v[0] + v[1] * v[1] + v[2] * v[2] + v[3] * v[3]
        # out == v/|v| : same direction and unit (stated without the square root: out*|v|^2 == v*(out.v), out.v > 0)
        ov = out[0] * v[0] + out[1] * v[1] + out[2] * v[2] + out[3] * v[3]
        h.check('unit', h.is_unit(out))
        h.check(f'order {k}: out is the Taylor polynomial of order {k} applied to q0, normalised',
                h.eq(out * n2, v * ov) & h.gt(ov, 0.0))
    hf.__doc__ = f"series method of order {k}: normalise((sum_(i<={k}) (dt/2 Omega)^i / i!) q0)"
    return hf


for _k in range(0, 7):
    _mk_series(_k, ('quick', 'thorough') if _k <= 3 else ('thorough',))


@harness('C08/dead-reckoning', functions=['ahrs.filters.madgwick:Madgwick.updateIMU', 'ahrs.filters.mahony:Mahony.updateIMU',
                                           'ahrs.filters.aqua:AQUA.updateIMU', 'ahrs.filters.ekf:EKF.f',
                                           'ahrs.filters.roleq:ROLEQ.attitude_propagation'], max_paths=16)
def dead_reckoning(h):
    """null accelerometer: every filter advances by normalise(q + dt/2 q (x) (0, w)) (AQUA in its conjugate convention)"""
    q = h.unit_quat('q')
    g = _rate(h)
    dt = h.real('dt', 1e-3, 5e-2)
    zero = np.zeros(3)
    gq = np.array([0.0, g[0], g[1], g[2]], dtype=object if h.sym else float)
    step = q + (0.5 * dt) * rot.qmul(q, gq)
    n2 = step[0] * step[0] + step[1] * step[1] + step[2] * step[2] + step[3] * step[3]

    def same_dir(tag, out, ref, refn2):
        ov = out[0] * ref[0] + out[1] * ref[1] + out[2] * ref[2] + out[3] * ref[3]
        h.out(tag, out)
        h.check(f'{tag}: unit', h.is_unit(out))
        h.check(f'{tag}: first-order step, normalised', h.eq(out * refn2, ref * ov) & h.gt(ov, 0.0))
    same_dir('Madgwick', np.array(flt.Madgwick().updateIMU(q.copy(), g.copy(), zero.copy(), dt=dt)), step, n2)
    same_dir('Mahony', np.array(flt.Mahony().updateIMU(q.copy(), g.copy(), zero.copy(), dt=dt)), step, n2)
    b0 = h.vec('b', 3, -1, 1)
    same_dir('Mahony with a bias estimate', np.array(flt.Mahony(b0=b0.copy()).updateIMU(q.copy(), g.copy(), zero.copy(), dt=dt)), step, n2)
    same_dir('Mahony.updateMARG with a bias estimate', np.array(flt.Mahony(b0=b0.copy()).updateMARG(q.copy(), g.copy(), zero.copy(), g.copy(), dt=dt)), step, n2)
    same_dir('ROLEQ', np.array(flt.ROLEQ().attitude_propagation(q.copy(), g.copy(), dt)), step, n2)
    e = flt.EKF(magnetic_ref=60.0).f(q.copy(), g.copy(), dt)
    h.check('EKF.f == q + dt/2 q (x) (0, w)', h.eq(np.array(e), step))
    # AQUA stores the conjugate attitude (local -> sensor): its step is the conjugate of the step taken from conj(q)
    qa = np.array(flt.AQUA().updateIMU(q.copy(), g.copy(), zero.copy(), dt=dt))
    qc = rot.qconj(q)
    stepc = qc + (0.5 * dt) * rot.qmul(qc, gq)
    same_dir('AQUA (conjugate convention)', rot.qconj(qa), stepc, n2)


@harness('C08/angular_velocities', functions=['ahrs.common.quaternion:QuaternionArray.angular_velocities'], max_paths=8)
def angular_velocities(h):
    """w_t from consecutive quaternions: q_t (x) (0, w_t) dt/2 is the component of q_(t+1) orthogonal to q_t"""
    p, q = h.unit_quat('p'), h.unit_quat('q')
    dt = 0.01
    W = QuaternionArray(np.array([p, q])).angular_velocities(dt)
    h.out('w', W)
    h.check('shape', h.shape_is(W, (1, 3)))
    w = W[0]
    gq = np.array([0.0, w[0], w[1], w[2]], dtype=object if h.sym else float)
    d = p[0] * q[0] + p[1] * q[1] + p[2] * q[2] + p[3] * q[3]
    lhs = p + (0.5 * dt) * rot.qmul(p, gq)
    h.check('first-order re-integration: p + dt/2 p (x) (0, w) == p + (q - (p.q) p)', h.eq(lhs, p + (q - d * p)))
