"""symnp runner: explores one harness symbolically in a worker process, discharges its obligations,
escalates undecided ones to the portfolio, replays counterexamples on the unpatched code."""
import builtins
import hashlib
import importlib
import inspect
import json
import multiprocessing as mp
import os
import random
import sys
import tempfile
import time
import traceback
from fractions import Fraction as F

import numpy as _np
import z3

from . import core, trig, proxy, solve
from . import harness as hz
from .core import CTX, SR, SymnpUnsupported, explore
from .harness import H, REGISTRY, run_conc, classify_exception

VERIF_DIR = os.path.dirname(os.path.dirname(os.path.abspath(__file__)))


def load_property_module(pid):
    if VERIF_DIR not in sys.path:
        sys.path.insert(0, VERIF_DIR)
    if '/repo' not in sys.path:
        sys.path.insert(0, '/repo')
    return importlib.import_module(f"harness.{pid}")


def _constraints(p, snap, with_assumes=True):
    d, c, f, a = snap
    out = p.domain[:d] + p.pc[:c] + p.defs[:f]
    if with_assumes:
        out += p.assumes[:a]
    if p.uses_pi:
        out = core.PI_BOUNDS + out
    return out


def _envjson(env):
    return {k: (str(v) if isinstance(v, F) else v) for k, v in (env or {}).items()}


def _fidelity_witness(p, hh, rng):
    full = (len(p.domain), len(p.pc), len(p.defs), len(p.assumes))
    base = _constraints(p, full)
    for attempt in range(3):
        s = z3.Solver()
        s.set('timeout', 3000)
        for c in base:
            s.add(c)
        if attempt < 2:
            for n, v in p.inputs.items():
                if v.sort() != z3.RealSort():
                    continue
                t = rng.uniform(-1, 1) * (1.0 if attempt == 0 else 0.5)
                w = 0.35 if attempt == 0 else 0.6
                s.add(v >= z3.RealVal(repr(round(t - w, 3))), v <= z3.RealVal(repr(round(t + w, 3))))
        if s.check() != z3.sat:
            continue
        m = s.model()
        env = {}
        for n, v in p.inputs.items():
            val = solve.model_value(m, v)
            if val is not None:
                env[n] = val
        outs = {}
        try:
            for n, arr in hh.outs.items():
                vals = []
                for e in _np.asarray(arr, dtype=object).ravel():
                    if isinstance(e, core.SymBool):
                        vals.append(None)
                        continue
                    val = solve.model_value(m, core.lift(e))
                    vals.append(None if val is None else builtins.float(val))
                outs[n] = vals
        except BaseException:
            return None
        return dict(env=_envjson(env), outs=outs, generic=attempt < 2)
    return None


def fidelity_compare(pid, hname, fw, tier='quick', tol=1e-6):
    """run the unpatched code on the witness inputs; compare every observed output with the value its symbolic term
    takes under the same model. -> (n_compared, n_mismatch, detail)"""
    load_property_module(pid)
    h = REGISTRY[hname]
    res = run_conc(h, env_floats(fw['env']), tier=tier)
    if res['assume_failed']:
        return 0, 0, 'witness not in the float domain'
    n = bad = 0
    detail = []
    for name, vals in fw['outs'].items():
        if name not in res['outs']:
            continue
        conc = _np.asarray(res['outs'][name], dtype=builtins.float).ravel()
        if len(conc) != len(vals):
            bad += 1
            detail.append(f"{name}: size {len(conc)} vs {len(vals)}")
            continue
        sgn = 1.0
        if name in res.get('mod_sign', ()):
            d1 = sum(abs(a - b) for a, b in zip(conc, vals) if b is not None)
            d2 = sum(abs(a + b) for a, b in zip(conc, vals) if b is not None)
            sgn = 1.0 if d1 <= d2 else -1.0
        for a, b in zip(conc, vals):
            if b is None:
                continue
            n += 1
            if not (abs(a - sgn * b) <= tol * (1 + abs(b))):
                bad += 1
                if len(detail) < 5:
                    detail.append(f"{name}: code={a!r} term={b!r}")
    return n, bad, detail


def _sym_worker(pid, hname, tier, conn, quick_ms):
    """runs in a forked child: explore + in-process solving. Sends a picklable result dict."""
    t0 = time.time()
    result = dict(harness=hname, paths=0, truncated=False, records=[], unsupported=[], events=[], stats={},
                  reach=None, error=None, notes=[], path_outcomes=[], fidelity=[])
    rng = random.Random(int(os.environ.get('VERIF_SEED', '0') or 0) * 7919 + 13)
    try:
        load_property_module(pid)
        h = REGISTRY[hname]
        proxy.patch()
        trig.reset_granularity()
        cur = [None]

        def fn():
            proxy.STUBS.reset()
            hh = H('sym', tier=tier)
            cur[0] = hh
            h.fn(hh)
            return hh

        holders = []

        def on_path(p):
            p.value_h = cur[0]

        core.PathResult.__slots__  # noqa
        max_paths = h.max_paths if tier == 'quick' else h.max_paths * 4
        paths, truncated = explore(fn, max_paths=max_paths, on_path=lambda p: holders.append(cur[0]))
        result['paths'] = len(paths)
        result['truncated'] = truncated
        tmo = quick_ms if quick_ms else h.timeout_ms
        reach = None
        for pi, (p, hh) in enumerate(zip(paths, holders)):
            obls = []
            outcome = p.outcome
            if outcome == 'exc':
                cls = classify_exception(p.value)
                if cls == 'unsupported':
                    outcome = 'unsupported'
                elif isinstance(p.value, h.allowed_exc):
                    outcome = 'raises-allowed'
                else:
                    obls.append(dict(name=f"no-exception({type(p.value).__name__}: {str(p.value)[:80]})", kind='exception',
                                     bad=z3.BoolVal(True), snap=(len(p.domain), len(p.pc), len(p.defs), len(p.assumes))))
            if outcome == 'unsupported':
                result['unsupported'].append(dict(path=pi, reason=str(p.value)[:300]))
            result['path_outcomes'].append(outcome if outcome != 'exc' else f"exc:{type(p.value).__name__}")
            if hh is not None:
                result['notes'] = list(dict.fromkeys(result['notes'] + hh.notes))
                if hh.definedness == 'check':
                    for o in p.oblig:
                        obls.append(dict(name=f"defined:{o['kind']}", kind='definedness', bad=o['bad'], snap=o['snap']))
                for c in hh.checks:
                    if c.get('trivial'):
                        result['records'].append(dict(path=pi, name=c['name'], kind='check', status='unsat', by='simplifier',
                                                      secs=0.0))
                    else:
                        obls.append(dict(name=c['name'], kind='check', bad=c['bad'], snap=c['snap']))
            for ev in p.events:
                result['events'].append(ev)
            # reachability witness
            if reach is None:
                st, env, dt = solve.solve_inproc(_constraints(p, (len(p.domain), len(p.pc), len(p.defs), len(p.assumes))),
                                                 max(tmo, 5000), p.inputs)
                if st == 'sat':
                    reach = dict(path=pi, env=_envjson(env))
            # fidelity witness: a generic model of this path and the value of every observed output term under it
            if hh is not None and hh.outs and len(result['fidelity']) < 4 and outcome == 'ok':
                fw = _fidelity_witness(p, hh, rng)
                if fw is not None:
                    fw['path'] = pi
                    result['fidelity'].append(fw)
            for o in obls:
                cons = _constraints(p, o['snap']) + [o['bad']]
                st, env, dt = solve.solve_inproc(cons, tmo, p.inputs)
                rec = dict(path=pi, name=o['name'], kind=o['kind'], status=st, by='z3-5.1-inproc', secs=round(dt, 3))
                if st == 'sat':
                    rec['env'] = _envjson(env)
                elif st == 'unknown':
                    rec['smt2'] = solve.to_smt2(cons)
                    rec['vars'] = list(p.inputs)
                result['records'].append(rec)
        result['reach'] = reach
        result['stats'] = dict(CTX.stats)
    except BaseException as e:   # engine failure
        result['error'] = f"{type(e).__name__}: {e}\n{traceback.format_exc(limit=8)}"
    result['wall'] = round(time.time() - t0, 2)
    try:
        conn.send(result)
    except Exception as e:
        conn.send(dict(harness=hname, error=f"cannot send result: {e}", records=[], paths=0, unsupported=[], events=[],
                       stats={}, reach=None, notes=[], truncated=False, wall=0, path_outcomes=[], fidelity=[]))
    conn.close()


def run_workers(pid, names, tier, jobs, wall_limit, quick_ms=None, log=print):
    """run sym workers with bounded parallelism; kill the ones exceeding wall_limit"""
    ctx = mp.get_context('fork')
    pending = list(names)
    running = {}
    results = {}
    while pending or running:
        while pending and len(running) < jobs:
            n = pending.pop(0)
            a, b = ctx.Pipe(duplex=False)
            pr = ctx.Process(target=_sym_worker, args=(pid, n, tier, b, quick_ms), daemon=True)
            pr.start()
            b.close()
            running[n] = (pr, a, time.time())
        done = []
        for n, (pr, a, t0) in running.items():
            if a.poll():
                try:
                    results[n] = a.recv()
                except EOFError:
                    results[n] = dict(harness=n, error='worker died', records=[], paths=0, unsupported=[], events=[], stats={},
                                      reach=None, notes=[], truncated=False, wall=time.time() - t0, path_outcomes=[])
                pr.join(timeout=5)
                done.append(n)
            elif not pr.is_alive():
                results[n] = dict(harness=n, error='worker died without result', records=[], paths=0, unsupported=[], events=[],
                                  stats={}, reach=None, notes=[], truncated=False, wall=time.time() - t0, path_outcomes=[])
                done.append(n)
            elif time.time() - t0 > wall_limit:
                pr.kill()
                pr.join(timeout=5)
                results[n] = dict(harness=n, error=f'engine wall limit {wall_limit}s exceeded (undecided)', records=[], paths=0,
                                  unsupported=[], events=[], stats={}, reach=None, notes=[], truncated=False,
                                  wall=time.time() - t0, path_outcomes=[], timeout=True)
                done.append(n)
        for n in done:
            running.pop(n)
            log(f"  [{n}] explored: paths={results[n].get('paths')} records={len(results[n].get('records', []))} "
                f"wall={results[n].get('wall')}s" + (f" ERROR {results[n]['error'][:200]}" if results[n].get('error') else ''))
        if not done:
            time.sleep(0.05)
    return results


def escalate(results, timeout_s, jobs, log=print):
    """portfolio pass over the obligations the quick in-process pass left undecided"""
    import concurrent.futures as cf
    todo = []
    for n, r in results.items():
        for rec in r['records']:
            if rec['status'] == 'unknown' and 'smt2' in rec:
                todo.append(rec)
    if not todo:
        return 0
    workdir = tempfile.mkdtemp(prefix='symnp_')
    per = max(1, len(solve.BINS))

    def one(rec):
        st, env, by, dt, detail = solve.portfolio(rec['smt2'], timeout_s, rec.get('vars'), workdir=workdir)
        rec['status'] = st
        rec['by'] = by or 'portfolio'
        rec['secs'] = round(rec.get('secs', 0) + dt, 3)
        rec['portfolio'] = detail
        if st == 'sat':
            rec['env'] = _envjson(env)
        if st != 'unknown':
            rec.pop('smt2', None)
        return rec
    try:
        with cf.ThreadPoolExecutor(max_workers=max(1, jobs // per)) as ex:
            list(ex.map(one, todo))
    finally:
        try:
            for f in os.listdir(workdir):
                os.unlink(os.path.join(workdir, f))
            os.rmdir(workdir)
        except OSError:
            pass
    return len(todo)


def env_floats(env):
    out = {}
    for k, v in (env or {}).items():
        try:
            out[k] = builtins.float(F(v)) if isinstance(v, str) else builtins.float(v)
        except Exception:
            pass
    return out


def replay(pid, hname, env, tier='quick', replay_kf=None):
    """concrete replay of a model on the unpatched code. -> (reproduces, detail)"""
    load_property_module(pid)
    h = REGISTRY[hname]
    res = run_conc(h, env_floats(env), tier=tier, replay_kf=replay_kf)
    detail = dict(failed=res['failed'], nonfinite=res['nonfinite'], assume_failed=[str(a) for a in res['assume_failed']],
                  exc=None if res['exc'] is None else f"{type(res['exc']).__name__}: {res['exc']}",
                  inputs=res['sampled'])
    if res['assume_failed']:
        return False, detail
    exc = res['exc']
    bad_exc = exc is not None and not isinstance(exc, h.allowed_exc)
    rep = bool(res['failed'] or res['nonfinite'] or bad_exc)
    return rep, detail


def source_hashes(functions):
    """qualified names -> sha1 of current source (shows the encoding is regenerated from /repo)"""
    out = {}
    for q in functions:
        try:
            mod, _, attr = q.partition(':')
            m = importlib.import_module(mod)
            obj = m
            for part in attr.split('.'):
                obj = getattr(obj, part)
            if isinstance(obj, property):
                obj = obj.fget
            src = inspect.getsource(obj)
            out[q] = hashlib.sha1(src.encode()).hexdigest()[:12]
        except Exception as e:
            out[q] = f"unavailable ({type(e).__name__})"
    return out
