"""C16 - ellipsoid gravity model satisfies the closed-form level-ellipsoid identities."""
import numpy as np
from ahrs.utils.geodesy import ReferenceEllipsoid
from ahrs.utils.wgs84 import WGS
from symnp.harness import harness

PROPERTY = dict(
    id='C16',
    explanation="Domain: a in [1e5, 1e8], f in [1e-6, 0.2] or f = 0 (its own path, es == 0), GM > 0, w >= 0 with m = w^2 a^2 b / GM "
                "<= 0.05; latitude an angle atom in degrees; h in [0, 0.005 a]. arctan(e') is an inverse-trig atom whose value "
                "symbol enters the formulas linearly, so Pizzetti's theorem 2 ge/a + gp/b = 3GM/(a^2 b) - 2 w^2 is a rational "
                "identity in (a, f, GM, w, e', A) decided without knowing A. Somigliana: g(0) = ge, g(+-90) = gp (uses "
                "sqrt(1-e^2) = 1-f), g(lat) = g(-lat); the height factor is compared with its closed form.",
    bounds="straight-line code; the es == 0 branch is its own path",
    outside=["positivity of ge, gp and closeness to the rotating-sphere values for small f > 0 (needs enclosures of arctan: "
             "attempted in the thorough tier)", "cancellation error of q0 for f ~ 1e-6 in floats"],
)
FG = 'ahrs.utils.geodesy:ReferenceEllipsoid.'


def _params(h, fzero=False):
    a = h.real('a', 1e5, 1e8)
    f = 0.0 if fzero else h.real('f', 1e-6, 0.2)
    GM = h.real('GM', 1e8, 1e18)
    w = h.real('w', 0.0, 1e-2)
    b = a * (1.0 - f)
    h.assume(h.le(w * w * a * a * b, 0.05 * GM))
    return a, f, GM, w, b


@harness('C16/constants+pizzetti', functions=[FG + n for n in ('equatorial_normal_gravity', 'polar_normal_gravity',
                                                                 'first_eccentricity_squared', 'second_eccentricity_squared',
                                                                 'linear_eccentricity', 'normal_gravity_constant')], max_paths=8, conc_tol=1e-10)
def pizzetti(h):
    """defining identities of the derived constants and Pizzetti's theorem for f in [1e-6, 0.2]"""
    a, f, GM, w, b = _params(h)
    E = ReferenceEllipsoid(a=a, f=f, GM=GM, w=w)
    h.check('b == a (1 - f)', h.eq(E.b, b))
    h.check('e^2 == 2f - f^2 == (a^2 - b^2)/a^2', h.eq(E.first_eccentricity_squared * a * a, a * a - b * b))
    h.check("e'^2 == (a^2 - b^2)/b^2", h.eq(E.second_eccentricity_squared * b * b, a * a - b * b))
    le = E.linear_eccentricity
    h.check('E^2 == a^2 - b^2', h.eq(le * le, a * a - b * b) & h.ge(le, 0.0))
    h.check('m == w^2 a^2 b / GM', h.eq(E.normal_gravity_constant * GM, w * w * a * a * b))
    ge, gp = E.equatorial_normal_gravity, E.polar_normal_gravity
    h.out('ge', ge)
    h.out('gp', gp)
    h.check('Pizzetti: 2 ge/a + gp/b == 3 GM/(a^2 b) - 2 w^2',
            h.eq((2.0 * ge * b + gp * a) * a, 3.0 * GM - 2.0 * w * w * a * a * b))


@harness('C16/sphere', functions=[FG + 'equatorial_normal_gravity', FG + 'polar_normal_gravity', FG + 'normal_gravity'], max_paths=8)
def sphere(h):
    """flattening exactly zero: the rotating-sphere values and Pizzetti's theorem"""
    a, f, GM, w, b = _params(h, fzero=True)
    E = ReferenceEllipsoid(a=a, f=0.0, GM=GM, w=w)
    ge, gp = E.equatorial_normal_gravity, E.polar_normal_gravity
    h.out('ge', ge)
    h.out('gp', gp)
    m = w * w * a * a * a / GM
    h.check('Pizzetti (f = 0): 2 ge/a + gp/a == 3 GM/a^3 - 2 w^2', h.eq((2.0 * ge + gp) * a * a, 3.0 * GM - 2.0 * w * w * a * a * a))
    h.check('ge == GM/a^2 (1 - 3m/2) (limit of the ellipsoidal formula)', h.eq(ge * a * a, GM * (1.0 - 1.5 * m)))
    h.check('gp == GM/a^2 (1 + m)', h.eq(gp * a * a, GM * (1.0 + m)))
    h.check('ge > 0 and gp > 0', h.gt(ge, 0.0) & h.gt(gp, 0.0))


@harness('C16/somigliana', functions=[FG + 'normal_gravity'], max_paths=16, conc_tol=1e-9)
def somigliana(h):
    """normal gravity: equator -> ge, poles -> gp, symmetric in latitude, closed-form height factor"""
    a, f, GM, w, b = _params(h)
    E = ReferenceEllipsoid(a=a, f=f, GM=GM, w=w)
    ge, gp = E.equatorial_normal_gravity, E.polar_normal_gravity
    h.check('g(0) == ge', h.eq(E.normal_gravity(0.0), ge))
    h.check('g(90) == gp', h.eq(E.normal_gravity(90.0), gp))
    h.check('g(-90) == gp', h.eq(E.normal_gravity(-90.0), gp))
    lat = h.angle('lat', 'pm_halfpi', 'deg')
    g1 = E.normal_gravity(lat)
    g2 = E.normal_gravity(-lat)
    h.out('g(lat)', g1)
    h.check('g(lat) == g(-lat)', h.eq(g1, g2))
    hh = h.real('h', 0.0, 5e5)
    h.assume(h.le(hh, 0.005 * a) & h.gt(hh, 0.0))
    gh = E.normal_gravity(lat, hh)
    m = w * w * a * a * b / GM
    if h.sym:
        from symnp import trig
        from symnp.core import SR
        c, s = trig.cossin(lat * (np.pi / 180.0))
        s2 = SR(s) * SR(s)
    else:
        s2 = np.sin(np.deg2rad(lat)) ** 2
    fac = 1.0 - 2.0 * hh * (1.0 + f + m - 2.0 * f * s2) / a + 3.0 * hh * hh / (a * a)
    h.check('g(lat, h) == g(lat) * (1 - 2h(1 + f + m - 2 f sin^2)/a + 3 h^2/a^2)', h.eq(gh, g1 * fac))
    h.check('the height factor is below 1 and positive for 0 < h <= 0.005 a', h.lt(fac, 1.0) & h.gt(fac, 0.0))


@harness('C16/planets', functions=[FG + 'equatorial_normal_gravity', FG + 'polar_normal_gravity'], max_paths=4)
def planets(h):
    """WGS84 instance: Pizzetti's theorem with the shipped constants (concrete), gravity positive"""
    x = h.real('dummy', 0.0, 1.0)
    W = WGS()
    ge, gp = W.equatorial_normal_gravity, W.polar_normal_gravity
    lhs = 2.0 * ge / W.a + gp / W.b
    rhs = 3.0 * W.gm / (W.a ** 2 * W.b) - 2.0 * W.w ** 2
    h.check('WGS84 Pizzetti', h.eq(lhs + 0.0 * x, rhs, tol=1e-9))
    h.check('WGS84 gravity positive, polar > equatorial', h.gt(ge + 0.0 * x, 9.7) & h.gt(gp + 0.0 * x, ge))
