import sys; sys.path.insert(0,'/repo'); sys.path.insert(0,'/tmp/probe')
import time, z3, numpy as _np, traceback
from proto import *
import trig
from trig import TH
import ahrs
import ahrs.common.orientation as ori, ahrs.common.quaternion as quat, ahrs.common.dcm as dcm, ahrs.utils.core as core, ahrs.common.mathfuncs as mf
import ahrs.filters.triad as triad, ahrs.filters.saam as saam, ahrs.filters.famc as famc, ahrs.filters.aqua as aqua
patch([ori, quat, dcm, core, mf, triad, saam, famc, aqua])
def vec(names): 
    v=[z3.Real(n) for n in names]; return v, _np.array([SR(t) for t in v], dtype=object)
def solve(name, cons, tmo=60000):
    s=z3.Solver(); s.set('timeout',tmo)
    for c in cons: s.add(c)
    t=time.time(); r=s.check(); print('   ',name, r, round(time.time()-t,2)); sys.stdout.flush()
    if r==z3.sat: print('        ', str(s.model())[:400].replace('\n',' '))
    return r
def Rq(w,x,y,z):
    return _np.array([[1-2*(y*y+z*z), 2*(x*y-w*z), 2*(x*z+w*y)],[2*(x*y+w*z), 1-2*(x*x+z*z), 2*(y*z-w*x)],[2*(x*z-w*y), 2*(w*x+y*z), 1-2*(x*x+y*y)]],dtype=object)
qv,_=vec('wxyz'); cd,sd,s1,s2=z3.Reals('cd sd s1 s2')
pre=[sum(t*t for t in qv)==1, cd*cd+sd*sd==1, cd>=z3.RealVal('0.17'), s1>0, s2>0]
def setup():
    TH.reset()
    _,q=vec('wxyz'); CTX.pc += pre
    R=Rq(*q)
    g=_np.array([0.0,0.0,1.0],dtype=object); mref=_np.array([SR(cd),0.0,SR(sd)],dtype=object)
    a=(R.T@g)*SR(s1); m=(R.T@mref)*SR(s2)
    return q,R,g,mref,a,m
def report(name, run, expect):
    t0=time.time(); paths=explore(run); print(name,'paths',len(paths),'explore',round(time.time()-t0,1))
    for i,(pc,defs,oblig,(kind,val)) in enumerate(paths):
        if kind=='exc': print('  EXC',repr(val), ''.join(traceback.format_tb(val.__traceback__)[-2:])[:400]); continue
        seen=set()
        for j,(k,term,pcs) in enumerate(oblig):
            key=(k,term.get_id())
            if key in seen: continue
            seen.add(key); r=solve(f'p{i} oblig{j} {k}', pc+defs+[term==0 if k=='div' else term<0], 20000)
        est, truth = val
        est=[lift(e) for e in _np.asarray(est,dtype=object).ravel()]; truth=[lift(e) for e in _np.asarray(truth,dtype=object).ravel()]
        if expect=='mat': solve(f'p{i} exact', pc+defs+[z3.Or([e!=t for e,t in zip(est,truth)])])
        else: solve(f'p{i} exact(+-)', pc+defs+[z3.Or([e!=t for e,t in zip(est,truth)]), z3.Or([e!=-t for e,t in zip(est,truth)])])
def run_triad():
    q,R,g,mref,a,m=setup()
    t=triad.TRIAD(v1=g, v2=mref, frame='NED')
    return t.estimate(a,m), R.T
report('TRIAD rotmat', run_triad, 'mat')
def run_saam():
    q,R,g,mref,a,m=setup()
    return saam.SAAM().estimate(a,m), q
report('SAAM', run_saam, 'quat')
def run_aqua():
    q,R,g,mref,a,m=setup()
    return aqua.AQUA().estimate(a,m), q
report('AQUA', run_aqua, 'quat')
