"""Square abstraction: every subterm t*t (and even powers) is replaced by a fresh symbol s >= 0. The abstraction only
forgets facts, so `unsat` of the abstracted constraint set implies `unsat` of the original one. It turns the frequent
"sum of squares is non-negative / |x| <= 1 because 1 - x^2 is a sum of squares" obligations into linear arithmetic."""
import z3


def _collect(t, found, seen):
    stack = [t]
    while stack:
        x = stack.pop()
        i = x.get_id()
        if i in seen:
            continue
        seen[i] = x
        if not z3.is_app(x):
            continue
        ch = x.children()
        if x.decl().kind() == z3.Z3_OP_MUL and len(ch) >= 2:
            # group identical factors
            ids = {}
            for c in ch:
                ids.setdefault(c.get_id(), []).append(c)
            if len(ch) == 2 and len(ids) == 1:
                found[i] = x
        stack.extend(ch)


def abstract(constraints):
    """-> (abstracted constraints, number of squares abstracted)"""
    found, seen = {}, {}
    for c in constraints:
        _collect(c, found, seen)
    if not found:
        return None, 0
    subs = []
    extra = []
    for k, (i, t) in enumerate(found.items()):
        s = z3.Real(f"sq!abs{k}")
        subs.append((t, s))
        extra.append(s >= 0)
        base = t.children()[0]
        extra.append((s == 0) == (base == 0))       # a square vanishes exactly when its base does
    out = [z3.substitute(c, *subs) for c in constraints]
    return out + extra, len(subs)


def try_refute(constraints, timeout_ms=400):
    """True if the square-abstracted constraints are unsatisfiable (then so are the original ones)"""
    try:
        cons, n = abstract(constraints)
    except z3.Z3Exception:
        return False
    if not n:
        return False
    s = z3.Solver()
    s.set('timeout', timeout_ms)
    for c in cons:
        s.add(c)
    from . import solve as _sv
    return _sv.guarded_check(s, timeout_ms) == z3.unsat
