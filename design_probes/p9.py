import sys; sys.path.insert(0,'/tmp/probe')
exec(open('/tmp/probe/p6.py').read().split("def run_triad")[0])
from portfolio import run_portfolio
def run_triad():
    q,R,g,mref,a,m=setup()
    t=triad.TRIAD(v1=g, v2=mref, frame='NED')
    return t.estimate(a,m), R.T
CTX.pool=[z3.RealVal(1), s1, s2, cd, s1*s2, cd*s1*s2]
paths=explore(run_triad)
pc,defs,oblig,(kind,val)=paths[0]
est,truth=val
print('defs', defs)
print('entry00:', str(z3.simplify(lift(est[0,0])))[:600])
for (i,j) in [(0,0),(0,1),(1,2)]:
    e=lift(est[i,j]); t=lift(truth[i,j])
    print((i,j), 'generic', run_portfolio(pc+defs+[e!=t], 30, 'te'))
    print((i,j), 's1=s2=1', run_portfolio(pc+defs+[e!=t, s1==1, s2==1], 30, 'te'))
    print((i,j), 's1=s2=1,dip fixed', run_portfolio(pc+defs+[e!=t, s1==1, s2==1, cd==z3.RealVal('0.6'), sd==z3.RealVal('0.8')], 30, 'te'))
