"""Independent reference pieces for the WMM checks: Schmidt / Gauss normalisation, associated Legendre functions by the
derivative formula (not the recursion the code uses), coefficient-file parser, harmonic synthesis."""
from fractions import Fraction as Fr
from math import factorial
import numpy as np


def dfact(n):
    r = 1
    while n > 1:
        r *= n
        n -= 2
    return r


def legendre_poly(n):
    """coefficients (ascending powers, exact Fractions) of the Legendre polynomial P_n(x) by the explicit sum"""
    c = [Fr(0)] * (n + 1)
    for k in range(n // 2 + 1):
        c[n - 2 * k] = Fr((-1) ** k * factorial(2 * n - 2 * k), 2 ** n * factorial(k) * factorial(n - k) * factorial(n - 2 * k))
    return c


def deriv(c, m):
    for _ in range(m):
        c = [c[i] * i for i in range(1, len(c))] or [Fr(0)]
    return c


def polyval(c, x):
    r = 0
    for a in reversed(c):
        r = r * x + a
    return r


def gauss_P(n, m, s, c):
    """Gauss-normalised associated Legendre function P^{n,m} at geocentric latitude with sin = s, cos = c:
    P^{n,m} = (2^n n! (n-m)! / (2n)!) * c^m * d^m/dx^m P_n(x) at x = s"""
    g = Fr(2 ** n * factorial(n) * factorial(n - m), factorial(2 * n))
    d = deriv(legendre_poly(n), m)
    return (c ** m) * polyval([a * g for a in d], s) if m else polyval([a * g for a in d], s)


def gauss_dP(n, m, s, c):
    """d/d(colatitude) of P^{n,m}: with x = s = cos(colat), c = sin(colat): d/dtheta [c^m Q(s)] = m c^(m-1) s Q(s) - c^(m+1) Q'(s)
    (the code's dP is the derivative with respect to colatitude, sign as in the WMM report)"""
    g = Fr(2 ** n * factorial(n) * factorial(n - m), factorial(2 * n))
    q = [a * g for a in deriv(legendre_poly(n), m)]
    q1 = deriv(q, 1)
    t2 = (c ** (m + 1)) * polyval(q1, s)
    if m == 0:
        return -t2
    return m * (c ** (m - 1)) * s * polyval(q, s) - t2


def schmidt_factor(n, m):
    """factor that turns Schmidt semi-normalised coefficients into Gauss-normalised ones:
    S_{n,m} = sqrt((2 - delta_m0) (n-m)!/(n+m)!) * (2n-1)!!/(n-m)!"""
    k = 1 if m == 0 else 2
    return float(np.sqrt(k * factorial(n - m) / factorial(n + m)) * dfact(2 * n - 1) / factorial(n - m))


def parse_cof(text):
    """-> epoch, {(n, m): (g, h, gdot, hdot)}"""
    lines = text.strip().split('\n')
    epoch = float(lines[0].split()[0])
    out = {}
    for ln in lines[1:]:
        p = ln.split()
        if len(p) < 6 or p[0].startswith('9999'):
            continue
        n, m = int(p[0]), int(p[1])
        out[(n, m)] = tuple(float(x) for x in p[2:6])
    return epoch, out
