import sys; sys.path.insert(0,'/repo'); sys.path.insert(0,'/tmp/probe')
import time, z3, numpy as _np, traceback, math
from proto import *
import trig
from trig import TH, new_angle, angle_eq
from portfolio import run_portfolio
import ahrs
import ahrs.common.orientation as ori, ahrs.common.quaternion as quat, ahrs.common.dcm as dcm, ahrs.utils.core as core, ahrs.common.mathfuncs as mf
import ahrs.common.frames as frames, ahrs.utils.geodesy as geo
patch([ori, quat, dcm, core, mf, frames, geo])
frames.DEG2RAD=1.0; frames.RAD2DEG=1.0   # probe only: treat angles as radians
def solve(name, cons, tmo=60000):
    s=z3.Solver(); s.set('timeout',tmo)
    for c in cons: s.add(c)
    t=time.time(); r=s.check(); print('   ',name, r, round(time.time()-t,2)); sys.stdout.flush()
    if r==z3.sat: print('        ', str(s.model())[:300].replace('\n',' '))
    return r
# ---- Pizzetti with arctan as UF
atan=z3.Function('atan', z3.RealSort(), z3.RealSort())
def sym_arctan(x):
    if not isinstance(x,SR): return math.atan(x)
    return SR(atan(x.t))
Proxy.arctan=lambda self,x: _np.frompyfunc(sym_arctan,1,1)(x)
a,f,GM,w=z3.Reals('a f GM w')
def run_geo():
    TH.reset(); CTX.pc += [a>=100000, a<=100000000, f>=z3.RealVal('1e-6'), f<=z3.RealVal('0.2'), GM>0, w>=0]
    e=geo.ReferenceEllipsoid(SR(a),SR(f),SR(GM),SR(w))
    return e.equatorial_normal_gravity, e.polar_normal_gravity, e.b
t0=time.time(); paths=explore(run_geo); print('geodesy paths',len(paths), round(time.time()-t0,1))
for pc,defs,oblig,(kind,val) in paths:
    if kind=='exc': print('EXC',repr(val), ''.join(traceback.format_tb(val.__traceback__)[-2:])[:300]); continue
    ge,gp,b=[lift(v) for v in val]
    print('  pc',len(pc),'defs',len(defs))
    nz=[term!=0 for (k,term,_) in oblig if k=='div']+[term>=0 for (k,term,_) in oblig if k=='sqrtarg']
    print('  n nz', len(nz))
    print('  pizzetti', run_portfolio(pc+defs+nz+[2*ge/a + gp/b != 3*GM/(a*a*b) - 2*w*w], 60, 'piz'))
