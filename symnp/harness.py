"""symnp harness layer: dual-mode harness context (symbolic / concrete), obligations, replay."""
import builtins
import math
import random
import time
import traceback
from fractions import Fraction as F

import numpy as _np
import z3

from . import core, trig, proxy
from .core import CTX, SR, SymBool, SymnpUnsupported, lift, explore

import os as _os
REPO_DIR = _os.environ.get('SYMNP_REPO', '/repo')
CONC_TOL = 1e-6


# ----------------------------------------------------------------------------------------------
# Propositions: symbolic (list of labelled z3 conjuncts) or concrete (lenient/strict booleans)
# ----------------------------------------------------------------------------------------------
class P:
    __slots__ = ('sym', 'conj', 'len', 'strict', 'info', 'fv', 'fvr')

    def __init__(self, sym, conj=None, lenient=None, strict=None, info=None, fv=None, fvr=None):
        self.sym = sym
        self.conj = conj          # sym: list of (label, z3 Bool)
        self.len = lenient        # conc: holds within tolerance
        self.strict = strict      # conc: holds with margin
        self.info = info
        self.fv = fv              # sym: truth value on the shadow samples (or None)
        self.fvr = fvr            # sym: truth value on the samples with a loose tolerance (False = fails by a wide margin)

    @staticmethod
    def s(term, label='', fv=None, fvr=None):
        return P(True, [(label, term)], fv=fv, fvr=fv if fvr is None and label in ('shape', 'const') else fvr)

    @staticmethod
    def c(lenient, strict=None, info=None):
        return P(False, None, bool(lenient), bool(lenient if strict is None else strict), info)

    def term(self):
        ts = [t for _, t in self.conj]
        return z3.And(ts) if len(ts) != 1 else ts[0]

    def __and__(self, o):
        if self.sym:
            return P(True, self.conj + o.conj, fv=None if self.fv is None or o.fv is None else (self.fv & o.fv),
                     fvr=None if self.fvr is None or o.fvr is None else (self.fvr & o.fvr))
        return P.c(self.len and o.len, self.strict and o.strict, (self.info, o.info))

    def __or__(self, o):
        if self.sym:
            return P.s(z3.Or(self.term(), o.term()), fv=None if self.fv is None or o.fv is None else (self.fv | o.fv),
                       fvr=None if self.fvr is None or o.fvr is None else (self.fvr | o.fvr))
        return P.c(self.len or o.len, self.strict or o.strict, (self.info, o.info))

    def __invert__(self):
        if self.sym:
            return P.s(z3.Not(self.term()), fv=None if self.fv is None else ~self.fv)
        return P.c(not self.strict, not self.len, self.info)

    def implies(self, o):
        return (~self) | o


class Violation(Exception):
    pass


def _isinf(x):
    return isinstance(x, (builtins.float, _np.floating)) and x in (math.inf, -math.inf)


def _flat(x):
    if isinstance(x, _np.ndarray):
        return list(x.ravel())
    if isinstance(x, (list, tuple)):
        out = []
        for e in x:
            out += _flat(e)
        return out
    return [x]


def _shape(x):
    if isinstance(x, _np.ndarray):
        return x.shape
    if isinstance(x, (list, tuple)):
        return _np.shape(_np.empty(_np.shape(_np.array(x, dtype=object))))
    return ()


class H:
    """harness context. mode 'sym': inputs are SR, props are z3 terms. mode 'conc': inputs are floats
    taken from `env`, the repository code runs unpatched, props are evaluated with tolerance."""

    def __init__(self, mode, env=None, rng=None, tier='quick', tol=CONC_TOL):
        self.mode = mode
        self.env = env or {}
        self.rng = rng
        self.tier = tier
        self.tol = tol
        self.checks = []        # sym: dict(name, bad(term), snap); conc: dict(name, ok, info)
        self.outs = {}
        self.assume_failed = []
        self.samplers = {}
        self.definedness = 'check'
        self.notes = []
        self.allowed_exc = ()
        self.sampled = {}
        self.replay_kf = None
        self.mod_sign = set()

    @property
    def sym(self):
        return self.mode == 'sym'

    # ---- inputs ------------------------------------------------------------------------------
    def _value(self, name, sampler):
        if name in self.env:
            v = builtins.float(self.env[name])
        elif self.rng is not None:
            v = sampler(self.rng)
        else:
            v = 0.0
        self.sampled[name] = v
        return v

    def real(self, name, lo=None, hi=None, lo_open=False, hi_open=False, sampler=None):
        if sampler is None:
            a = -2.0 if lo is None else lo
            b = 2.0 if hi is None else hi
            if lo is not None and hi is None:
                b = lo + 3.0
            if hi is not None and lo is None:
                a = hi - 3.0

            def sampler(r, a=a, b=b):
                return r.uniform(a + 1e-3 * (b - a), b - 1e-3 * (b - a))
        if self.sym:
            v = z3.Real(name)
            CTX.inputs[name] = v
            if lo is not None:
                CTX.domain.append(v > lift(lo) if lo_open else v >= lift(lo))
            if hi is not None:
                CTX.domain.append(v < lift(hi) if hi_open else v <= lift(hi))
            a = -2.0 if lo is None else lo
            b = 2.0 if hi is None else hi
            if lo is not None and hi is None:
                b = lo + 3.0
            if hi is not None and lo is None:
                a = hi - 3.0
            fv = core.seeded_samples(name, core.SAMPLE_RNG.uniform(a, b, core.K_SAMPLES))
            fv = core.exact_samples(name, fv, lo, hi)
            CTX.fvs[name] = fv
            return SR(v, None, None, fv)
        v = self._value(name, sampler)
        if (lo is not None and v < lo - 1e-9 * (1 + abs(lo))) or (hi is not None and v > hi + 1e-9 * (1 + abs(hi))):
            self.assume_failed.append((f'{name} in [{lo}, {hi}]', v))
        return v

    def vec(self, name, n, lo=None, hi=None):
        els = [self.real(f"{name}{i}", lo, hi) for i in range(n)]
        return self.arr(els)

    def arr(self, els):
        if self.sym:
            return _np.array(els, dtype=object)
        return _np.array(els, dtype=builtins.float)

    def mat(self, name, r, c, lo=None, hi=None):
        return self.arr([[self.real(f"{name}{i}{j}", lo, hi) for j in range(c)] for i in range(r)])

    def unit_vec(self, name, n, pool=True):
        """n-vector with |v| = 1 (domain constraint); conc mode renormalises"""
        if self.sym:
            v = self.vec(name, n, -1, 1)
            g = core.SAMPLE_RNG.standard_normal((n, core.K_SAMPLES))
            g = g / _np.sqrt((g * g).sum(axis=0))
            if getattr(CTX, 'seed_env', None):
                g = _np.array([core.seeded_samples(f"{name}{i}", g[i]) for i in range(n)])
                g = g / _np.sqrt((g * g).sum(axis=0))
            g = core.sphere_samples([f"{name}{i}" for i in range(n)], g)
            for i in range(n):
                v[i].fv = g[i]
                CTX.fvs[f"{name}{i}"] = g[i]
            s = 0.0
            for e in v:
                s = s + e * e
            CTX.domain.append(s.t == 1)
            if 1.0 not in CTX.pool:
                CTX.pool.append(1.0)
            return v
        if all(f"{name}{i}" in self.env for i in range(n)):
            v = _np.array([builtins.float(self.env[f"{name}{i}"]) for i in range(n)])
        else:
            v = _np.array([self.rng.gauss(0, 1) for _ in range(n)]) if self.rng is not None else _np.array([1.0] + [0.0] * (n - 1))
        nv = _np.linalg.norm(v)
        v = v / nv if nv > 0 else v
        for i in range(n):
            self.sampled[f"{name}{i}"] = builtins.float(v[i])
        return v

    def unit_quat(self, name):
        return self.unit_vec(name, 4)

    def angle(self, name, rng='pm_pi', unit='rad', lo=None, hi=None):
        """angle atom usable by cos/sin in the code under test"""
        full = math.pi if unit == 'rad' else 180.0
        rl, rh = {'pm_pi': (-full, full), '0_pi': (0.0, full), 'pm_halfpi': (-full / 2, full / 2), 'free': (-2 * full, 2 * full)}[rng]
        if lo is not None:
            rl = max(rl, lo)
        if hi is not None:
            rh = min(rh, hi)
        if self.sym:
            x = trig.new_angle(name, rng, unit, lo=lo, hi=hi)
            x.fv = core.SAMPLE_RNG.uniform(rl, rh, core.K_SAMPLES) * (1.0 if unit == 'rad' else math.pi / 180.0)
            if unit != 'rad':
                x.fv = x.fv * (180.0 / math.pi)
            x.fv = core.seeded_samples(name, x.fv)
            CTX.fvs[name] = x.fv
            CTX.inputs[name] = x.t
            if lo is not None:
                CTX.domain.append(x.t >= lift(lo))
            if hi is not None:
                CTX.domain.append(x.t <= lift(hi))
            return x
        v = self._value(name, lambda r: r.uniform(rl + 1e-3 * (rh - rl), rh - 1e-3 * (rh - rl)))
        eps = 1e-9 * (1 if unit == 'rad' else 180 / math.pi)
        if not (rl - eps <= v <= rh + eps):
            self.assume_failed.append((f'angle {name} in [{rl}, {rh}]', v))
        return v

    def const(self, x):
        return x

    def pool(self, *cands):
        """candidate terms for certified sqrt rewriting"""
        if self.sym:
            CTX.pool += list(cands)

    # ---- propositions --------------------------------------------------------------------------
    def _pairs(self, a, b):
        fa, fb = _flat(a), _flat(b)
        if len(fb) == 1 and len(fa) > 1:
            fb = fb * len(fa)
        if len(fa) == 1 and len(fb) > 1:
            fa = fa * len(fb)
        if len(fa) != len(fb):
            raise Violation(f"shape mismatch {len(fa)} vs {len(fb)}")
        return list(zip(fa, fb))

    def shape_is(self, a, shape):
        ok = tuple(_np.shape(a)) == tuple(shape)
        return P.s(z3.BoolVal(ok), 'shape', _np.full(core.K_SAMPLES, ok)) if self.sym else P.c(ok, ok, f"shape {_np.shape(a)} vs {shape}")

    def true(self):
        return P.s(z3.BoolVal(True), '', _np.ones(core.K_SAMPLES, dtype=bool), _np.ones(core.K_SAMPLES, dtype=bool)) if self.sym else P.c(True)

    def false(self):
        return P.s(z3.BoolVal(False), '', _np.zeros(core.K_SAMPLES, dtype=bool), _np.zeros(core.K_SAMPLES, dtype=bool)) if self.sym else P.c(False)

    def eq(self, a, b, tol=None):
        """a == b (element-wise conjunction). sym: exact unless tol given; conc: within tolerance"""
        if _np.shape(a) != _np.shape(b) and _np.ndim(a) and _np.ndim(b):
            return P.s(z3.BoolVal(False), 'shape') if self.sym else P.c(False, False, f"shape {_np.shape(a)} vs {_np.shape(b)}")
        pairs = self._pairs(a, b)
        if self.sym:
            conj = []
            fv = _np.ones(core.K_SAMPLES, dtype=bool)
            fvr = _np.ones(core.K_SAMPLES, dtype=bool)
            for i, (x, y) in enumerate(pairs):
                if core._is_nan(x) or core._is_nan(y) or _isinf(x) or _isinf(y):
                    conj.append((str(i), z3.BoolVal(False)))      # a concrete NaN / inf equals nothing
                    fv = None if fv is None else (fv & False)
                    fvr = None if fvr is None else (fvr & False)
                    continue
                tx, ty = lift(x), lift(y)
                if tol is None:
                    conj.append((str(i), tx == ty))
                else:
                    conj.append((str(i), z3.And(tx - ty <= lift(tol), ty - tx <= lift(tol))))
                d = core._fop(lambda u, w: _np.abs(u - w) <= (1e-9 if tol is None else tol) * (1 + _np.abs(w)), x, y)
                fv = None if (fv is None or d is None) else (fv & d)
                dr = core._fop(lambda u, w: ~(_np.abs(u - w) > max(1e-4, 100 * (tol or 0.0)) * (1 + _np.abs(w))), x, y)
                fvr = None if (fvr is None or dr is None) else (fvr & dr)
            return P(True, conj, fv=fv, fvr=fvr)
        t = self.tol if tol is None else max(tol, self.tol)
        worst = 0.0
        for x, y in pairs:
            x, y = builtins.float(x), builtins.float(y)
            if x != x or y != y or abs(x) == math.inf or abs(y) == math.inf:
                return P.c(False, False, 'non-finite')
            worst = max(worst, abs(x - y) / (1.0 + abs(y)))
        return P.c(worst <= t, worst <= t * 1e-3, f"max err {worst:.3g}")

    def ne(self, a, b):
        return ~self.eq(a, b)

    def _cmp(self, a, b, op, strict_op):
        pairs = self._pairs(a, b)
        if self.sym:
            if any(core._is_nan(x) or core._is_nan(y) for x, y in pairs):
                return P.s(z3.BoolVal(False), 'nan', _np.zeros(core.K_SAMPLES, dtype=bool))
            fv = _np.ones(core.K_SAMPLES, dtype=bool)
            fvr = _np.ones(core.K_SAMPLES, dtype=bool)
            for x, y in pairs:
                d = core._fop(lambda u, w: op(u, w), x, y)
                fv = None if (fv is None or d is None) else (fv & d)
                dr = core._fop(lambda u, w: op(u, w) | op(u - 1e-4 * (1 + _np.abs(w)), w) | op(u + 1e-4 * (1 + _np.abs(w)), w), x, y)
                fvr = None if (fvr is None or dr is None) else (fvr & dr)
            return P(True, [(str(i), op(lift(x), lift(y))) for i, (x, y) in enumerate(pairs)], fv=fv, fvr=fvr)
        ok_l = all(strict_op(builtins.float(x), builtins.float(y), self.tol) for x, y in pairs)
        ok_s = all(strict_op(builtins.float(x), builtins.float(y), -self.tol) for x, y in pairs)
        return P.c(ok_l, ok_s)

    def le(self, a, b):
        return self._cmp(a, b, lambda x, y: x <= y, lambda x, y, t: x <= y + t * (1 + abs(y)))

    def lt(self, a, b):
        return self._cmp(a, b, lambda x, y: x < y, lambda x, y, t: x < y + t * (1 + abs(y)))

    def ge(self, a, b):
        return self.le(b, a)

    def gt(self, a, b):
        return self.lt(b, a)

    def either(self, *ps):
        r = ps[0]
        for p in ps[1:]:
            r = r | p
        return r

    def eq_up_to_sign(self, a, b, tol=None):
        return self.eq(a, b, tol) | self.eq(a, [-(x) for x in _flat(b)] if not isinstance(b, _np.ndarray) else -b, tol)

    def same_quat(self, out, q, tol=None):
        """out == +-q for unit q. Symbolic form: (out.q)^2 == 1 (equivalent when |out| = |q| = 1, which the caller
        checks separately); concrete form: component-wise"""
        if self.sym:
            d = 0
            for a, b in self._pairs(out, q):
                d = d + self._exact(a) * self._exact(b)
            return self.eq(d * d, 1, tol)
        return self.eq_up_to_sign(out, q, tol)

    def angle_eq(self, a, b, unit='rad'):
        """computed angle a equals expected angle b"""
        if self.sym:
            ar, br = trig.to_radians(a, unit), trig.to_radians(b, unit)
            return P.s(trig.angle_eq_term(ar, br))
        full = 2 * math.pi if unit == 'rad' else 360.0
        a, b = builtins.float(a), builtins.float(b)
        if a != a or b != b:
            return P.c(False, False, 'nan')
        d = (a - b + full / 2) % full - full / 2
        t = self.tol * (1 if unit == 'rad' else 180 / math.pi)
        return P.c(abs(d) <= t, abs(d) <= t * 1e-3, f"angle err {d:.3g}")

    def _exact(self, e):
        """in symbolic mode concrete floats take part in harness arithmetic as the rationals they stand for"""
        if self.sym and isinstance(e, (builtins.float, _np.floating)) and e == e and abs(e) != math.inf:
            return core.nice_fraction(builtins.float(e))
        return e

    def is_unit(self, v, tol=None):
        s = 0
        for e in _flat(v):
            e = self._exact(e)
            s = s + e * e
        return self.eq(s, 1, tol)

    def is_rotation(self, R, tol=None):
        R = _np.asarray(R)
        I = R @ R.T
        eye = [[1.0 if i == j else 0.0 for j in range(3)] for i in range(3)]
        d = (R[0, 0] * (R[1, 1] * R[2, 2] - R[1, 2] * R[2, 1]) - R[0, 1] * (R[1, 0] * R[2, 2] - R[1, 2] * R[2, 0])
             + R[0, 2] * (R[1, 0] * R[2, 1] - R[1, 1] * R[2, 0]))
        return self.eq(_np.array(I), _np.array(eye, dtype=object if self.sym else builtins.float), tol) & self.eq(d, 1.0, tol)

    # ---- assumptions / obligations ----------------------------------------------------------------
    def assume(self, p, name='assume'):
        if self.sym:
            for _, t in p.conj:
                CTX.domain.append(t)
            core.mask_and(p.fv)
        elif not p.len:
            self.assume_failed.append((name, p.info))

    def kf(self, kf_id, region):
        """region of a known finding, for use as `kf(...) | property`; while the finding's own witness is being
        replayed the region is reported as false so that the defect shows"""
        self.notes.append(f"known finding {kf_id}: region carved out of the obligation (witness replayed separately)")
        if self.replay_kf == kf_id:
            return self.false()
        ign = _os.environ.get('SYMNP_IGNORE_KF', '')
        if ign and (ign == 'all' or kf_id in ign.split(',')):
            return self.false()         # diagnostic mode: let the solver re-find the known finding
        return region

    def lemma(self, name, p):
        """solver-checked fact that is then available as a hypothesis to later queries on this path"""
        self.check('lemma: ' + name, p)
        if self.sym:
            for _, t in p.conj:
                CTX.domain.append(t)        # a proven fact: does not restrict the samples

    def lemma_rotation(self, R):
        """R R^T = I and det R = 1 as certified facts, built with the term constructors the code's gates use"""
        if not self.sym:
            return
        R = _np.asarray(R)
        I = _np.identity(3).astype(object)
        self.lemma('R R^T == I', self.eq(R @ R.T, I))
        self.lemma('det R == 1', self.eq(proxy._det(R), 1.0))

    def split_signs(self, xs, tag='sgn'):
        """strata: fork on the sign pattern (>= 0 / <= 0) of the given input symbols"""
        if not self.sym:
            return [1 if builtins.float(x) >= 0 else -1 for x in xs]
        out = []
        for i, x in enumerate(xs):
            c = core.choose(2, f'{tag}{i}')
            if c == 0:
                CTX.domain.append(x.t >= 0)
                core.mask_and(None if x.fv is None else x.fv >= 0)
                out.append(1)
            else:
                CTX.domain.append(x.t <= 0)
                core.mask_and(None if x.fv is None else x.fv <= 0)
                out.append(-1)
        return out

    def exclude_known(self, kf_id, region):
        """remove a known finding's region from the domain (the finding's witness is replayed separately)"""
        self.notes.append(f"known finding {kf_id}: region excluded from the domain (its witness is replayed separately)")
        ign = _os.environ.get('SYMNP_IGNORE_KF', '')
        if self.replay_kf == kf_id or (ign and (ign == 'all' or kf_id in ign.split(','))):
            return              # replaying the finding's own witness / diagnostic mode: the region must stay in
        self.assume(~region, name=f"not-in-known-finding-{kf_id}")

    def check(self, name, p):
        """obligation: p must hold for every input on this path"""
        if self.sym:
            snap = CTX.snap()
            multi = len(p.conj) > 1
            for label, t in p.conj:
                nm = f"{name}[{label}]" if multi else name
                bad = z3.simplify(z3.Not(t))
                if z3.is_false(bad):
                    self.checks.append(dict(name=nm, bad=None, snap=snap, trivial=True))
                else:
                    cands = []
                    if p.fvr is not None:
                        try:
                            for k in _np.nonzero(CTX.mask_opt & ~_np.asarray(p.fvr, dtype=bool))[0][:3]:
                                env = {n: builtins.float(v[k]) for n, v in CTX.fvs.items() if _np.isfinite(v[k])}
                                if env:
                                    cands.append(env)
                        except Exception:
                            cands = []
                    self.checks.append(dict(name=nm, bad=bad, snap=snap, trivial=False, mask=CTX.mask_opt.copy(),
                                            exact=dict(CTX.exact), cands=cands))
        else:
            self.checks.append(dict(name=name, ok=p.len, info=p.info))

    def out(self, name, value, mod_sign=False):
        """observed output (fidelity comparison, finiteness in concrete mode). mod_sign: the value is only defined up to
        a global sign (contracts with a nondeterministic sign)"""
        self.outs[name] = value
        if mod_sign:
            self.mod_sign.add(name)

    def note(self, s):
        self.notes.append(s)

    def call(self, fn, *a, **k):
        return fn(*a, **k)

    def raises(self, fn, excs=(ValueError, TypeError)):
        """-> (raised: bool, value). Symbolic: the exception ends the call on this path."""
        try:
            v = fn()
        except excs as e:
            return True, e
        return False, v


# ----------------------------------------------------------------------------------------------
# Harness registry
# ----------------------------------------------------------------------------------------------
class Harness:
    def __init__(self, fn, name, tiers, max_paths, timeout_ms, allowed_exc, doc, functions, bounds, stubs,
                 escalate_s, kind, strata, max_decisions=400, algcert_s=6.0, conc_tol=CONC_TOL):
        self.fn, self.name, self.tiers = fn, name, tiers
        self.max_paths, self.timeout_ms, self.allowed_exc = max_paths, timeout_ms, allowed_exc
        self.doc, self.functions, self.bounds, self.stubs = doc, functions, bounds, stubs
        self.escalate_s = escalate_s
        self.kind = kind
        self.strata = strata
        self.max_decisions = max_decisions
        self.algcert_s = algcert_s
        self.conc_tol = conc_tol


REGISTRY = {}


def harness(name, tiers=('quick', 'thorough'), max_paths=64, timeout_ms=700, allowed_exc=(), functions=(), bounds='',
            stubs=(), escalate_s=None, kind='property', strata=None, max_decisions=400, algcert_s=6.0, conc_tol=CONC_TOL):
    def deco(fn):
        REGISTRY[name] = Harness(fn, name, tiers, max_paths, timeout_ms, allowed_exc, (fn.__doc__ or '').strip(),
                                 list(functions), bounds, list(stubs), escalate_s, kind, strata, max_decisions, algcert_s, conc_tol)
        return fn
    return deco


def classify_exception(e):
    """the code's own exception vs. an engine limitation surfacing as TypeError inside numpy"""
    if isinstance(e, (TypeError, AttributeError, NotImplementedError, IndexError, ValueError)):
        tb = e.__traceback__
        last = None
        while tb is not None:
            last = tb
            tb = tb.tb_next
        fn = last.tb_frame.f_code.co_filename if last is not None else ''
        msg = str(e)
        engine_words = ('SR', 'SymBool', "dtype('O')", 'object arrays', 'loop of ufunc', 'symbolic', 'dtype object',
                        'ufunc', "'O'")
        if not fn.startswith(REPO_DIR + '/ahrs'):
            if any(w in msg for w in engine_words) or '/symnp/' in fn:
                return 'unsupported'
    return 'exc'


def run_conc(h, env, rng=None, tier='quick', replay_kf=None):
    """run harness function concretely on the unpatched repository code"""
    proxy.unpatch()
    CTX.mode = 'conc'
    hh = H('conc', env=env, rng=rng, tier=tier, tol=getattr(h, 'conc_tol', CONC_TOL))
    hh.replay_kf = replay_kf
    res = dict(exc=None, nonfinite=[], failed=[], assume_failed=[], outs={}, sampled={})
    old = _np.seterr(all='ignore')
    try:
        try:
            h.fn(hh)
        except Exception as e:
            res['exc'] = e
            res['exc_tb'] = traceback.format_exc(limit=6)
    finally:
        _np.seterr(**old)
        CTX.mode = 'off'
    for c in hh.checks:
        if not c['ok']:
            res['failed'].append((c['name'], str(c['info'])))
    for n, v in hh.outs.items():
        try:
            a = _np.asarray(v, dtype=builtins.float)
            if not _np.all(_np.isfinite(a)):
                res['nonfinite'].append(n)
            res['outs'][n] = a
        except Exception:
            pass
    res['assume_failed'] = hh.assume_failed
    res['mod_sign'] = set(hh.mod_sign)
    res['sampled'] = hh.sampled
    res['checks'] = [c['name'] for c in hh.checks]
    return res
