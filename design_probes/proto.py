"""Throw-away feasibility prototype (NOT framework code): symbolic scalars in numpy object arrays,
proxy 'np' patched into the real ahrs modules, DFS path exploration with z3."""
import sys, math, time, types, builtins, itertools
import numpy as _np
import z3

class Abort(BaseException): pass
class Ctx:
    def __init__(self):
        self.reset_all()
    def reset_all(self):
        self.schedule=[]; self.pc=[]; self.pos=0; self.defs=[]; self.fresh=0; self.queries=0; self.qtime=0.0
        self.sqrt_cache={}; self.oblig=[]
    def start_path(self, schedule):
        self.dcache={}; self.schedule=list(schedule); self.pc=[]; self.pos=0; self.defs=[]; self.fresh=0; self.sqrt_cache={}; self.oblig=[]
    def feasible(self, extra):
        s=z3.Solver(); s.set('timeout', getattr(self,'feas_tmo',20000))
        for c in self.pc+self.defs+[extra]: s.add(c)
        t=time.time(); r=s.check(); self.qtime+=time.time()-t; self.queries+=1
        return r
    def branch(self, cond):
        cond = z3.simplify(cond)
        if z3.is_true(cond): return True
        if z3.is_false(cond): return False
        key=cond.get_id()
        if key in self.dcache: return self.dcache[key]
        if self.pos < len(self.schedule):
            d = self.schedule[self.pos]
        else:
            # new decision: try True first if feasible
            rt = self.feasible(cond)
            if rt==z3.unknown: print('   [feasibility unknown]', len(self.pc))
            if rt == z3.unsat: d=False; forced=True
            else:
                rf = self.feasible(z3.Not(cond))
                if rf == z3.unsat: d=True; forced=True
                else: d=True; forced=False
            self.schedule.append((d, forced)); d=(d,forced)
        self.pos+=1
        val, forced = d
        self.pc.append(cond if val else z3.Not(cond))
        self.dcache[key]=val
        return val
    def newvar(self, pfx):
        self.fresh+=1; return z3.Real(f"{pfx}!{self.fresh}")
CTX=Ctx()

def lift(x):
    if isinstance(x, SR): return x.t
    if isinstance(x, (int,)) and not isinstance(x,bool): return z3.RealVal(x)
    if isinstance(x, (float, _np.floating)): 
        return z3.RealVal(repr(float(x)))
    if isinstance(x, (_np.integer,)): return z3.RealVal(int(x))
    raise TypeError(f"lift {type(x)}")
def _arr(o): return isinstance(o,_np.ndarray)
class SB:
    def __init__(s, e): s.e=e
    def __bool__(s): return CTX.branch(s.e)
    def __and__(s,o): return SB(z3.And(s.e, o.e if isinstance(o,SB) else z3.BoolVal(bool(o))))
    def __or__(s,o): return SB(z3.Or(s.e, o.e if isinstance(o,SB) else z3.BoolVal(bool(o))))
    def __invert__(s): return SB(z3.Not(s.e))
class SR:
    pass
    def __init__(s, t): s.t = t
    def __repr__(s): return f"SR({s.t})"
    def __add__(s,o):
        if _arr(o): return NotImplemented
        return SR(s.t+lift(o))
    __radd__=__add__
    def __sub__(s,o):
        if _arr(o): return NotImplemented
        return SR(s.t-lift(o))
    def __rsub__(s,o):
        if _arr(o): return NotImplemented
        return SR(lift(o)-s.t)
    def __mul__(s,o):
        if _arr(o): return NotImplemented
        return SR(s.t*lift(o))
    __rmul__=__mul__
    def __truediv__(s,o):
        if _arr(o): return NotImplemented
        d=lift(o); CTX.oblig.append(('div', d, list(CTX.pc))); return SR(s.t/d)
    def __rtruediv__(s,o):
        if _arr(o): return NotImplemented
        CTX.oblig.append(('div', s.t, list(CTX.pc))); return SR(lift(o)/s.t)
    def __neg__(s): return SR(-s.t)
    def __pos__(s): return s
    def __abs__(s): return SR(z3.If(s.t>=0, s.t, -s.t))
    def __pow__(s,o):
        if isinstance(o,(int,_np.integer)) or (isinstance(o,float) and o==int(o)):
            o=int(o); r=z3.RealVal(1)
            for _ in range(abs(o)): r=r*s.t
            return SR(r) if o>=0 else SR(1/r)
        raise TypeError("pow")
    def __lt__(s,o): return SB(s.t<lift(o))
    def __le__(s,o): return SB(s.t<=lift(o))
    def __gt__(s,o): return SB(s.t>lift(o))
    def __ge__(s,o): return SB(s.t>=lift(o))
    def __eq__(s,o): return SB(s.t==lift(o))
    def __ne__(s,o): return SB(s.t!=lift(o))
    def __hash__(s): return id(s)
    def __bool__(s): return CTX.branch(s.t!=0)
    def __float__(s): raise TypeError("concretisation of symbolic real")
    def conjugate(s): return s
    def sqrt(s): return sym_sqrt(s)
def sym_sqrt(x):
    if not isinstance(x, SR): return math.sqrt(x) if x>=0 else float('nan')
    key = x.t.get_id()
    if key in CTX.sqrt_cache: return CTX.sqrt_cache[key]
    for cand in getattr(CTX,'pool',[]):
        s=z3.Solver(); s.set('timeout', 3000)
        for c in CTX.pc+CTX.defs: s.add(c)
        s.add(x.t != cand*cand)
        t=time.time(); rr=s.check(); CTX.qtime+=time.time()-t; CTX.queries+=1
        if rr==z3.unsat:
            out=SR(cand); CTX.sqrt_cache[key]=out; CTX.rewrites=getattr(CTX,'rewrites',0)+1; return out
    r = CTX.newvar('sqrt')
    CTX.oblig.append(('sqrtarg', x.t, list(CTX.pc)))
    CTX.defs += [r>=0, r*r==x.t]
    out=SR(r); CTX.sqrt_cache[key]=out; return out
def sym_sign(x):
    if not isinstance(x,SR): return float(_np.sign(x))
    return SR(z3.If(x.t>0, z3.RealVal(1), z3.If(x.t<0, z3.RealVal(-1), z3.RealVal(0))))
def _isym(a): 
    a=_np.asarray(a,dtype=object) if not isinstance(a,_np.ndarray) else a
    return a.dtype==object
_usqrt=_np.frompyfunc(sym_sqrt,1,1); _usign=_np.frompyfunc(sym_sign,1,1)
def _clip1(x,lo,hi):
    if not isinstance(x,SR): return min(max(x,lo),hi)
    return SR(z3.If(x.t<lift(lo), lift(lo), z3.If(x.t>lift(hi), lift(hi), x.t)))
_uclip=_np.frompyfunc(_clip1,3,1)
def _isclose1(a,b,rtol=1e-5,atol=1e-8):
    ta,tb=lift(a),lift(b); d=ta-tb; ad=z3.If(d>=0,d,-d); ab=z3.If(tb>=0,tb,-tb)
    return SB(ad <= lift(atol)+lift(rtol)*ab)
class Linalg:
    LinAlgError=_np.linalg.LinAlgError
    def norm(self, x, ord=None, axis=None, keepdims=False):
        x=_np.asarray(x, dtype=object) if not isinstance(x,_np.ndarray) else x
        if ord=='fro' or (ord is None and axis is None):
            return sym_sqrt(sum((e*e for e in x.ravel()), 0.0))
        return _usqrt((x*x).sum(axis=axis, keepdims=keepdims))
    def det(self, M):
        M=_np.asarray(M,dtype=object)
        if M.shape==(3,3):
            return (M[0,0]*(M[1,1]*M[2,2]-M[1,2]*M[2,1]) - M[0,1]*(M[1,0]*M[2,2]-M[1,2]*M[2,0]) + M[0,2]*(M[1,0]*M[2,1]-M[1,1]*M[2,0]))
        raise NotImplementedError
class Proxy:
    linalg=Linalg()
    ndarray=_np.ndarray; newaxis=None; pi=_np.pi
    PASS={'c_','r_','vstack','hstack','outer','transpose','tile','dot','trace','sum','repeat','append','diff','nonzero','linspace','arange','newaxis','e','nan','cumsum','ones','split','reshape','zeros_like'}
    def __getattr__(self, name):
        if name in Proxy.PASS: return getattr(_np, name)
        raise NotImplementedError(f"symnp: numpy.{name} not modelled")
    def array(self, obj, dtype=None, **kw):
        return _np.array(obj, dtype=object, **kw)
    def copy(self, a): return _np.array(a, dtype=object, copy=True)
    def zeros(self, shape, dtype=None): 
        a=_np.empty(shape, dtype=object); a.fill(0.0); return a
    def identity(self, n): 
        a=self.zeros((n,n)); 
        for i in range(n): a[i,i]=1.0
        return a
    eye=identity
    def sqrt(self, x): 
        r=_usqrt(x); return r
    def sign(self, x): return _usign(x)
    def clip(self, x, lo, hi): return _uclip(x, lo, hi)
    def isclose(self, a, b, rtol=1e-5, atol=1e-8): return _isclose1(a,b,rtol,atol)
    def allclose(self, a, b, rtol=1e-5, atol=1e-8):
        a=_np.asarray(a,dtype=object); b=_np.asarray(b,dtype=object); a,b=_np.broadcast_arrays(a,b)
        e=[_isclose1(x,y,rtol,atol).e for x,y in zip(a.ravel(), b.ravel())]
        return SB(z3.And(e))
    def diag(self, a): return _np.diag(a)
    def atleast_2d(self, a): return _np.atleast_2d(a)
    def roll(self, *a, **k): return _np.roll(*a, **k)
    def cross(self, a, b): return _np.cross(a,b)
    def where(self, c, a, b): raise NotImplementedError
    def isnan(self, a): return _np.zeros(_np.shape(a), dtype=bool)
    def dtype(self, t):
        if t is symfloat or t is builtins.float or t is int: return _np.dtype(object)
        return _np.dtype(t)
np_proxy=Proxy()

class _FloatMeta(type):
    def __instancecheck__(cls, x): return isinstance(x,(builtins.float, SR))
    def __call__(cls, x): return x if isinstance(x,SR) else builtins.float(x)
class symfloat(metaclass=_FloatMeta): pass

def patch(mods):
    for m in mods:
        m.np = np_proxy; m.float = symfloat

def explore(fn, max_paths=200):
    """DFS over branch decisions; yields (pc, defs, oblig, result|exception)"""
    stack=[[]]; out=[]
    while stack and len(out)<max_paths:
        sched=stack.pop()
        CTX.start_path(sched)
        try:
            res=('ok', fn())
        except Abort: continue
        except Exception as e:
            res=('exc', e)
        except BaseException as e:
            if type(e).__name__=='Restart': stack.append(sched); continue
            raise
        full=CTX.schedule
        out.append((list(CTX.pc), list(CTX.defs), list(CTX.oblig), res))
        # schedule alternatives for non-forced decisions made beyond the given prefix
        for i in range(len(sched), len(full)):
            d,forced=full[i]
            if not forced:
                stack.append(full[:i]+[(not d, True)])
    return out
