import sys; sys.path.insert(0,'/repo'); sys.path.insert(0,'/tmp/probe')
import time, z3, numpy as _np
from proto import *
import trig
from trig import new_angle, angle_eq, TH
import ahrs
import ahrs.common.orientation as ori, ahrs.common.quaternion as quat, ahrs.common.dcm as dcm, ahrs.utils.core as core
patch([ori, quat, dcm, core])
def solve(name, cons, tmo=120000):
    s=z3.Solver(); s.set('timeout',tmo)
    for c in cons: s.add(c)
    t=time.time(); r=s.check(); print(name, r, round(time.time()-t,2)); sys.stdout.flush()
    if r==z3.sat: print('    ', str(s.model())[:300].replace('\n',' '))
    return r
# --- rpy round trip via Quaternion.from_rpy / to_angles
def run():
    TH.reset()
    roll=new_angle('roll'); pitch=new_angle('pitch','pm_halfpi'); yaw=new_angle('yaw')
    ang=_np.array([roll,pitch,yaw],dtype=object)
    q = quat.Quaternion(rpy=ang)
    out = q.to_angles()
    return (roll,pitch,yaw), out, q
paths=explore(run)
print('paths',len(paths))
for pc,defs,oblig,(kind,val) in paths:
    if kind=='exc':
        import traceback; print('EXC',repr(val), ''.join(traceback.format_tb(val.__traceback__)[-3:])); continue
    (roll,pitch,yaw),out,q = val
    cp = trig.unit('pitch',1)[0]
    base = pc+defs+[cp>z3.RealVal('1e-6')]
    print('n defs',len(defs),'n pc',len(pc))
    for i,(nm,exp) in enumerate(zip(['roll','pitch','yaw'],[roll,pitch,yaw])):
        solve('rpy roundtrip '+nm, base+[z3.Not(angle_eq(out[i],exp))])
