"""C11 - constructors only ever produce valid rotations and reject what cannot be one."""
import numpy as np
from ahrs import Quaternion, QuaternionArray, DCM
from ahrs.common import quaternion as qmod
from symnp.harness import harness
from reference import rot
from harness import eigstub

PROPERTY = dict(
    id='C11',
    explanation="Accept side: symbolic non-zero 3-/4-vectors and (2, .) arrays -> the constructed quaternion is unit and a "
                "positive multiple of the input; every DCM keyword route -> R R^T = I, det = 1; +, - (non-vanishing), "
                "random_attitudes (RNG contract: u in [0,1)^3 fresh symbols, both representations), rotate_by and average "
                "(eig contract) -> unit. Reject side: a symbolic 3x3 matrix M that passes DCM(M) / Quaternion(dcm=M) / "
                "QuaternionArray(DCM=M[None]) must be within 1e-4 of SO(3) (max|M M^T - I| <= 1e-4 and |det M - 1| <= 1e-4), i.e. "
                "everything farther away raises ValueError: a statement about the real isclose/allclose gates (quadratic "
                "constraints in 9 symbols); exact rotations are accepted; zero vectors and wrong shapes (concrete shape "
                "lattice, symbolic contents) raise ValueError/TypeError.",
    bounds="N = 2 rows; shape lattice ndim 0..3, last dimension 2..5",
    outside=["symbolic NaN inputs and norms 1e+-100 (no NaN / overflow in the exact-real model; a few concrete NaN / inf inputs are "
             "run through the constructors in reject.shapes)", "matrices within 1e-12 of, but not "
             "exactly on, SO(3) (accepted-side perturbation bound not decided)"],
)
FQ = 'ahrs.common.quaternion:'
FD = 'ahrs.common.dcm:'


def _nz(h, name, n, lo=-4, hi=4):
    v = h.vec(name, n, lo, hi)
    s = 0.0
    for e in v:
        s = s + e * e
    h.assume(h.gt(s, 0.0))          # every non-zero vector, however small
    return v, s


def _parallel_unit(h, tag, out, v):
    """out is unit and a positive multiple of v (stated without roots): out * |v|^2 == v * (out.v), out.v > 0"""
    n2 = 0.0
    ov = 0.0
    for a, b in zip(out, v):
        n2 = n2 + b * b
        ov = ov + a * b
    h.check(f'{tag}: unit', h.is_unit(out))
    h.check(f'{tag}: same direction as the input', h.eq(out * n2, v * ov) & h.gt(ov, 0.0))


@harness('C11/Quaternion.ctor', functions=[FQ + 'Quaternion.__new__', FQ + 'QuaternionArray.__new__'], max_paths=16)
def quat_ctor(h):
    """Quaternion(v4), Quaternion(v3), QuaternionArray((2,4)), QuaternionArray((2,3)): unit, same direction"""
    v4, _ = _nz(h, 'v', 4)
    v3, _ = _nz(h, 'u', 3)
    q = np.array(Quaternion(v4.copy()))
    h.out('Quaternion(v4)', q)
    _parallel_unit(h, 'Quaternion(v4)', q, v4)
    q3 = np.array(Quaternion(v3.copy()))
    h.check('Quaternion(v3): pure', h.eq(q3[0], 0.0))
    _parallel_unit(h, 'Quaternion(v3)', q3[1:], v3)
    QA = np.array(QuaternionArray(np.array([v4, 2.0 * v4])))
    _parallel_unit(h, 'QuaternionArray row0', QA[0], v4)
    _parallel_unit(h, 'QuaternionArray row1', QA[1], v4)
    QA3 = np.array(QuaternionArray(np.array([v3, v3])))
    h.check('QuaternionArray((2,3)): pure rows', h.eq(QA3[:, 0], np.zeros(2)))
    _parallel_unit(h, 'QuaternionArray((2,3)) row0', QA3[0, 1:], v3)


@harness('C11/Quaternion.arith', functions=[FQ + 'Quaternion.__add__', FQ + 'Quaternion.__sub__', FQ + 'QuaternionArray.rotate_by'],
         max_paths=16)
def quat_arith(h):
    """p + q, p - q (non-vanishing) and rotate_by give unit quaternions"""
    p, q = h.unit_quat('p'), h.unit_quat('q')
    d = p[0] * q[0] + p[1] * q[1] + p[2] * q[2] + p[3] * q[3]
    h.assume(h.le(d, 0.99) & h.ge(d, -0.99))
    P_ = Quaternion(p.copy())
    s = np.array(P_ + q.copy())
    h.out('p+q', s)
    h.check('p + q unit', h.is_unit(s))
    h.check('p - q unit', h.is_unit(np.array(P_ - q.copy())))
    _parallel_unit(h, 'p + q direction', s, p + q)
    QA = QuaternionArray(np.array([p, q]))
    R = np.array(QA.rotate_by(q.copy()))
    h.check('rotate_by rows unit', h.is_unit(R[0]) & h.is_unit(R[1]))
    h.check('rotate_by row0 == q (x) p', h.eq(R[0], rot.qmul(q, p)))


@harness('C11/random_attitudes', functions=[FQ + 'random_attitudes'], max_paths=16, stubs=['np.random.default_rng().uniform: fresh symbols in [0,1)'])
def random_att(h):
    """random_attitudes(1) and (2), both representations: unit quaternions / proper rotations for every draw u in [0,1)^3"""
    q = np.array(qmod.random_attitudes(1))
    h.out('q', q)
    h.check('random_attitudes(1) unit', h.is_unit(q))
    Q = np.array(qmod.random_attitudes(2))
    h.check('random_attitudes(2) shape', h.shape_is(Q, (2, 4)))
    h.check('random_attitudes(2) rows unit', h.is_unit(Q[0]) & h.is_unit(Q[1]))
    R = np.array(qmod.random_attitudes(1, representation='rotmat'))
    h.check('rotmat proper', h.is_rotation(R))


@harness('C11/DCM.routes', functions=[FD + 'DCM.__new__', FD + 'rot_seq', FD + 'rotation', FD + 'DCM.from_quaternion'], max_paths=32)
def dcm_routes(h):
    """DCM built from a quaternion, x/y/z angles, rpy, an Euler sequence: proper rotation matrices"""
    q = h.unit_quat('q')
    a, b, c = (h.angle(n, 'pm_pi') for n in 'abc')
    for ang in (a, b, c):
        h.assume(h.ge(ang, 1e-4) | h.le(ang, -1e-4))
    for tag, R in (('DCM(q=)', DCM(q=q.copy())), ('DCM(x=,y=,z=)', DCM(x=a, y=b, z=c)), ('DCM(rpy=)', DCM(rpy=h.arr([a, b, c]))),
                   ("DCM(euler=('zxz', ...))", DCM(euler=('zxz', [a, b, c]))), ('DCM(x=)', DCM(x=a))):
        h.out(tag, np.array(R))
        h.check(f'{tag}: proper rotation', h.is_rotation(np.array(R)))


def _mk_reject(route, kf=None):
    @harness(f'C11/reject.{route}', functions=[FD + '_assert_SO3', FD + 'DCM.__new__', FQ + 'Quaternion.from_DCM',
                                                  FQ + 'QuaternionArray.from_DCM'], max_paths=32)
    def hf(h, route=route, kf=kf):
        M = h.mat('m', 3, 3, -2, 2)
        h.definedness = 'assume'
        if route == 'DCM':
            raised, out = h.raises(lambda: DCM(M.copy()), (ValueError,))
        elif route == 'Quaternion(dcm=)':
            raised, out = h.raises(lambda: Quaternion(dcm=M.copy()), (ValueError,))
        else:
            raised, out = h.raises(lambda: QuaternionArray(DCM=M.copy()[None]), (ValueError,))
        if raised:
            h.check('rejected with ValueError', h.true())
            return
        # accepted: the matrix must be within 1e-4 of SO(3)
        G = M @ M.T
        I = np.identity(3)
        near = h.true()
        for i in range(3):
            for j in range(3):
                near = near & h.le(G[i, j] - I[i, j], 1e-4) & h.ge(G[i, j] - I[i, j], -1e-4)
        det = rot.det3(M)
        near = near & h.le(det - 1.0, 1e-4) & h.ge(det - 1.0, -1e-4)
        if kf:
            near = h.kf(kf, h.true()) | near
        h.check(f'accepted only if within 1e-4 of SO(3)' + (f' (outside {kf})' if kf else ''), near)
    hf.__doc__ = f"{route}: a symbolic 3x3 matrix that is accepted is within 1e-4 of SO(3) (everything farther raises ValueError)"
    return hf


_mk_reject('DCM')
_mk_reject('Quaternion(dcm=)')
_mk_reject('QuaternionArray(DCM=)')


@harness('C11/reject.shapes', functions=[FQ + 'Quaternion.__new__', FQ + 'QuaternionArray.__new__', FD + 'DCM.__new__'], max_paths=8)
def reject_shapes(h):
    """zero vectors and wrong shapes are rejected with ValueError / TypeError (symbolic contents, concrete shapes)"""
    x = h.real('x', -2, 2)
    for n in (2, 5):
        raised, _ = h.raises(lambda: Quaternion(h.arr([x] * n)), (ValueError, TypeError))
        h.check(f'Quaternion(shape ({n},)) rejected', h.true() if raised else h.false())
    raised, _ = h.raises(lambda: Quaternion(h.arr([[x, x, x, x]])), (ValueError, TypeError))
    h.check('Quaternion(shape (1,4)) rejected', h.true() if raised else h.false())
    for z in (np.zeros(4), np.zeros(3)):
        raised, _ = h.raises(lambda: Quaternion(z.copy()), (ValueError, TypeError))
        h.check(f'Quaternion(zeros({len(z)})) rejected', h.true() if raised else h.false())
    for bad in (np.array([np.nan, 0.0, 0.0, 1.0]), np.array([0.0, np.nan, 1.0]), np.array([np.inf, 0.0, 0.0, 1.0])):
        raised, _ = h.raises(lambda: Quaternion(bad.copy()), (ValueError, TypeError))
        h.check(f'Quaternion({list(bad)}) rejected', h.true() if raised else h.false())
    raised, _ = h.raises(lambda: QuaternionArray(np.array([[np.nan, 0.0, 0.0, 1.0], [1.0, 0.0, 0.0, 0.0]])), (ValueError, TypeError))
    h.check('QuaternionArray with a NaN row rejected', h.true() if raised else h.false())
    Mn = np.identity(3)
    Mn[0, 1] = np.nan
    raised, _ = h.raises(lambda: DCM(Mn.copy()), (ValueError, TypeError))
    h.check('DCM with a NaN entry rejected', h.true() if raised else h.false())
    for tag, mk in (('DCM(q=zeros(4))', lambda: DCM(q=np.zeros(4))), ('DCM(axang=(zeros(3), 1))', lambda: DCM(axang=(np.zeros(3), 1.0))),
                    ('DCM(x=nan)', lambda: DCM(x=np.nan)), ('DCM(rpy=[nan, 0, 0.1])', lambda: DCM(rpy=np.array([np.nan, 0.0, 0.1]))),
                    ('DCM(q=[nan, 0, 0, 1])', lambda: DCM(q=np.array([np.nan, 0.0, 0.0, 1.0]))),
                    ('DCM(axang=([0, 0, 1], nan))', lambda: DCM(axang=(np.array([0.0, 0.0, 1.0]), np.nan)))):
        # (symbolic mode: a concrete 0/0 inside an object array raises ZeroDivisionError where NumPy gives NaN and the gate then
        # rejects; the concrete replay on the real code is what counts for these inputs)
        raised, _ = h.raises(mk, (ValueError, TypeError) + ((ZeroDivisionError,) if h.sym else ()))
        h.check(f'{tag} rejected', h.true() if raised else h.false())
    raised, _ = h.raises(lambda: QuaternionArray(h.arr([x, x, x, x])), (ValueError, TypeError))
    h.check('QuaternionArray(shape (4,)) rejected', h.true() if raised else h.false())
    raised, _ = h.raises(lambda: QuaternionArray(np.zeros((2, 4))), (ValueError, TypeError))
    h.check('QuaternionArray(zero rows) rejected', h.true() if raised else h.false())
    for zr in (0, 1):
        rows = [[x, 1.0 + x * x, x, 2.0], [x, 1.0 + x * x, x, 2.0]]
        rows[zr] = [0.0, 0.0, 0.0, 0.0]
        raised, out = h.raises(lambda: QuaternionArray(h.arr(rows)), (ValueError, TypeError))
        h.check(f'QuaternionArray with a zero row ({zr}) next to a valid row rejected', h.true() if raised else h.false())
    raised, _ = h.raises(lambda: QuaternionArray(h.arr([[x] * 5, [x] * 5])), (ValueError, TypeError))
    h.check('QuaternionArray(shape (2,5)) rejected', h.true() if raised else h.false())
    raised, _ = h.raises(lambda: DCM(h.arr([[x, x], [x, x]])), (ValueError, TypeError))
    h.check('DCM(shape (2,2)) rejected', h.true() if raised else h.false())
    raised, _ = h.raises(lambda: DCM(2.0 * np.identity(3)), (ValueError, TypeError))
    h.check('DCM(2 I) rejected', h.true() if raised else h.false())
    raised, _ = h.raises(lambda: DCM(np.diag([1.0, 1.0, -1.0])), (ValueError, TypeError))
    h.check('DCM(reflection) rejected', h.true() if raised else h.false())


@harness('C11/average', functions=[FQ + 'QuaternionArray.average'], max_paths=16, stubs=['np.linalg.eig: unit eigenvectors (contract)'])
def average(h):
    """QuaternionArray.average returns a unit quaternion (unit-eigenvector contract of np.linalg.eig)"""
    p, q = h.unit_quat('p'), h.unit_quat('q')
    if h.sym:
        from symnp import proxy, core

        def stub(M):
            # contract: 4 unit eigenvectors (columns) and real eigenvalues; nothing else is needed by average()
            V = np.empty((4, 4), dtype=object)
            w = np.empty(4, dtype=object)
            for j in range(4):
                col = [core.fresh_real('ev') for _ in range(4)]
                core.CTX.defs.append(sum(c.t * c.t for c in col) == 1)
                for i in range(4):
                    V[i, j] = col[i]
                w[j] = core.fresh_real('lam')
            return w, V
        proxy.STUBS.eig = stub
    out = np.array(QuaternionArray(np.array([p, q])).average())
    h.check('average is a unit quaternion', h.is_unit(out))
