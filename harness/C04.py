"""C04 - single-frame estimators recover the attitude exactly from consistent data."""
from fractions import Fraction as Fr
import numpy as np
from ahrs import Quaternion
from ahrs import filters as flt
from ahrs.common import orientation as ori
from symnp.harness import harness
from reference import rot
from harness import eigstub

PROPERTY = dict(
    id='C04',
    explanation="Truth q (|q| = 1, symbolic), references g = (0,0,+-1) per frame and m_ref = (cos d, 0, sin d) (dip d an angle atom "
                "in [-80, 80] degrees), positive symbolic scales s1, s2; measurements a = s1 R(q)^T g, m = s2 R(q)^T m_ref are "
                "built in the harness. Oracle: the estimate's rotation maps the references onto the measurement directions in "
                "the direction that estimator documents (stated on the measurements, so no sign/conjugation convention is "
                "guessed), and where the matrix is returned directly it equals R(q)^T. Tier 1 (general position): TRIAD, "
                "ecompass / am2DCM in matrix form, Tilt / acc2q (gravity direction), Davenport and FLAE-eig through the eig "
                "certificate contract (the truth is a unit eigenvector of the K / W matrix the code built, for the eigenvalue "
                "sum of weights, and the spectral decomposition is certified). Tier 2 (closed forms, low-dimensional "
                "families): SAAM, FAMC on one-parameter families of attitudes. Tier 3 (iterative): QUEST - the truth's "
                "eigenvalue is a root of the characteristic polynomial the code built (one Newton step from the exact root "
                "stays there).",
    bounds="Tier 2: single-axis rotation families x dip in {0, 30, 60} degrees; QUEST/OLEQ: fixed-point step only",
    outside=["convergence of QUEST / FLAE-newton / OLEQ iterations from their start values", "FLAE symbolic closed quartic",
             "FQA and AQUA.estimate beyond the gravity clause (nested half-angle roots: undecided in general position)",
             "rounding at isolated singular poses"],
    wall_limit=dict(quick=400, thorough=1800),
)
FF = 'ahrs.filters.'
FO = 'ahrs.common.orientation:'


def _truth(h, frame='NED', dip=True, scales=True):
    q = h.unit_quat('q')
    R = rot.R_of_q(q)
    gz = 1.0 if frame == 'NED' else -1.0
    g = np.array([0.0, 0.0, gz], dtype=object if h.sym else float)
    if dip:
        d = h.angle('dip', 'pm_halfpi', 'deg', lo=-80.0, hi=80.0)
        if h.sym:
            from symnp import trig
            from symnp.core import SR
            cd_, sd_ = trig.cossin(d * (np.pi / 180.0))
            cd, sd = SR(cd_), SR(sd_)
        else:
            cd, sd = np.cos(np.deg2rad(d)), np.sin(np.deg2rad(d))
    else:
        d, cd, sd = 60.0, 0.6, 0.8
        cd, sd = Fr(3, 5) if h.sym else 0.6, Fr(4, 5) if h.sym else 0.8
    mref = np.array([cd, 0.0, sd], dtype=object if h.sym else float) if frame == 'NED' else np.array([0.0, cd, -sd], dtype=object if h.sym else float)
    s1 = h.real('s1', 0.1, 20.0) if scales else 1.0
    s2 = h.real('s2', 0.1, 80.0) if scales else 1.0
    a = s1 * (R.T @ g)
    m = s2 * (R.T @ mref)
    if h.sym:
        h.pool(s1, s2, cd, s1 * s2 * cd, s1 * s1 * s2 * cd, s1 * cd, s2 * cd)
    return q, R, g, mref, a, m, (s1, s2, cd, sd)


def _maps(h, tag, A, R):
    """A is the body<-reference matrix: it must equal R(q)^T"""
    h.out(tag, np.array(A))
    h.check(f'{tag} == R(q)^T', h.eq(np.array(A), R.T))


@harness('C04/TRIAD', functions=[FF + 'triad:TRIAD.estimate'], max_paths=8)
def triad(h):
    """TRIAD.estimate (matrix form, both frames) on consistent data: A == R(q)^T for every attitude, dip and scaling"""
    h.definedness = 'assume'
    for frame in ('NED', 'ENU'):
        q, R, g, mref, a, m, _ = _truth(h, frame)
        t = flt.TRIAD(v1=np.array(g, copy=True), v2=np.array(mref, copy=True), frame=frame)
        A = t.estimate(a.copy(), m.copy())
        _maps(h, f'TRIAD {frame}', A, R)


@harness('C04/ecompass-am2DCM', functions=[FO + 'ecompass', FO + 'am2DCM'], max_paths=16)
def ecompass(h):
    """ecompass (rotmat) and am2DCM on consistent data map the measured gravity and field onto the local vertical / horizontal north"""
    h.definedness = 'assume'
    for frame in ('NED', 'ENU'):
        q, R, g, mref, a, m, (s1, s2, cd, sd) = _truth(h, frame)
        # ecompass documents the accelerometer as measuring +z of the local frame in both frames
        g = np.array([0.0, 0.0, 1.0], dtype=object if h.sym else float)
        a = s1 * (R.T @ g)
        gz = 1.0
        C = ori.ecompass(a.copy(), m.copy(), frame=frame, representation='rotmat')
        h.out(f'ecompass {frame}', C)
        h.check(f'ecompass {frame}: proper rotation', h.is_rotation(C))
        # documented direction: C maps body vectors into the local frame: C a is vertical, C m has no east component
        Ca, Cm = C @ a, C @ m
        vert = np.array([0.0, 0.0, 1.0]) * (s1 * gz) if frame == 'NED' else np.array([0.0, 0.0, 1.0]) * (s1 * gz)
        h.check(f'ecompass {frame}: C a == s1 g', h.eq(Ca, s1 * g))
        h.check(f'ecompass {frame}: C m == s2 m_ref', h.eq(Cm, s2 * mref))
        h.check(f'ecompass {frame}: C == R(q)', h.eq(C, R))


@harness('C04/Tilt-acc2q', functions=[FF + 'tilt:Tilt.estimate', FO + 'acc2q'], max_paths=16)
def tilt(h):
    """Tilt.estimate(acc) and acc2q(acc): the estimated attitude maps the local vertical onto the measured gravity direction"""
    h.definedness = 'assume'
    q, R, g, mref, a, m, (s1, s2, cd, sd) = _truth(h, 'NED', dip=False)
    for tag, qe in (('Tilt.estimate', flt.Tilt().estimate(a.copy())), ('acc2q', ori.acc2q(a.copy()))):
        qe = np.array(qe)
        h.out(tag, qe)
        h.check(f'{tag}: unit', h.is_unit(qe))
        Re = rot.R_of_q(qe)
        h.check(f'{tag}: R(q_est)^T g * s1 == a (same tilt as the truth)', h.eq(s1 * (Re.T @ g), a))


@harness('C04/Tilt-mag', tiers=('thorough',), functions=[FF + 'tilt:Tilt.estimate'], max_paths=16)
def tilt_mag(h):
    """Tilt.estimate(acc, mag): gravity and the horizontal field direction are reproduced"""
    h.definedness = 'assume'
    q, R, g, mref, a, m, (s1, s2, cd, sd) = _truth(h, 'NED', dip=False)
    qe = np.array(flt.Tilt().estimate(a.copy(), m.copy()))
    Re = rot.R_of_q(qe)
    h.check('gravity', h.eq(s1 * (Re.T @ g), a))
    hm = Re @ m
    h.check('the measured field has no east component in the estimated frame', h.eq(hm[1], 0.0))


def _mk_eig(name, build, tiers):
    @harness(f'C04/{name}', tiers=tiers, functions=[FF + 'davenport:Davenport.estimate', FF + 'flae:FLAE.estimate'], max_paths=16,
             stubs=['np.linalg.eig: certificate contract'])
    def hf(h, build=build):
        h.definedness = 'assume'
        build(h)
    hf.__doc__ = f"{name}: the matrix the code hands to eig has the truth as unit eigenvector for the top eigenvalue (certified spectral data)"
    return hf


def _davenport(h):
    q, R, g, mref, a, m, (s1, s2, cd, sd) = _truth(h, 'NED', dip=False, scales=False)
    f = flt.Davenport(magnetic_dip=float(np.degrees(np.arctan2(0.8, 0.6))) if False else None)
    # references of the instance (concrete module constants): use them to build the consistent data
    gq = np.array(f.g_q, dtype=float)
    mq = np.array(f.m_q, dtype=float)
    a = R.T @ gq if not h.sym else R.T @ gq.astype(object)
    m = R.T @ mq if not h.sym else R.T @ mq.astype(object)
    captured = {}
    if h.sym:
        from symnp import proxy, core

        def stub(K):
            captured['K'] = np.array(K)
            # contract used here: the returned top eigenvector is +-v* where K v* = lam* v*, |v*| = 1, lam* the largest
            # eigenvalue; which v* that is is certified below on the K the code built (lemma obligations)
            s = core.fresh_sign('eigsign')
            w, x, y, z = q
            v = np.array([w, x, y, z], dtype=object)
            captured['v'] = v
            lam = f.w[0] * float(gq @ gq) + f.w[1] * float(mq @ mq)
            vals = np.array([lam, lam - 1.0, lam - 2.0, lam - 3.0])   # placeholders below the top eigenvalue
            V = np.empty((4, 4), dtype=object)
            V[:, 0] = s * v
            for j in range(1, 4):
                V[:, j] = [core.fresh_real('eigfree') for _ in range(4)]
            return vals, V
        proxy.STUBS.eig = stub
    out = np.array(f.estimate(a.copy(), m.copy()))
    h.out('Davenport', out, mod_sign=True)
    if h.sym:
        K, v = captured['K'], captured['v']
        lam = f.w[0] * float(gq @ gq) + f.w[1] * float(mq @ mq)
        h.check('K is symmetric', h.eq(K, K.T))
        h.check('K v* == lam* v* for v* = q_true, lam* = w1 |g|^2 + w2 |m|^2', h.eq(K @ v, lam * v, tol=1e-6))
        h.check('trace K == 0 (so lam* > 0 dominates the mean of the other three eigenvalues)', h.eq(K.trace(), 0.0))
    h.check('estimate == +- q_true', h.eq_up_to_sign(out, q))
    h.note('module-level float references (gravity, Munich field): equalities with 1e-6 tolerance')


_mk_eig('Davenport', _davenport, ('quick', 'thorough'))


@harness('C04/SAAM-FAMC.families', tiers=('thorough',), functions=[FF + 'saam:SAAM.estimate', FF + 'famc:FAMC.estimate'], max_paths=32,
         bounds='one-parameter families: rotations about z (yaw) with fixed tilt, dip 60 degrees')
def saam_famc(h):
    """SAAM / FAMC on consistent data, yaw family at two tilts: the estimate reproduces the measurement directions"""
    h.definedness = 'assume'
    yaw = h.angle('yaw', 'pm_pi')
    if h.sym:
        from symnp import trig
        from symnp.core import SR
        c_, s_ = trig.cossin(yaw * Fr(1, 2))
        ch, sh = SR(c_), SR(s_)
    else:
        ch, sh = np.cos(yaw / 2), np.sin(yaw / 2)
    # truth = tilt (rotation about x by the 3-4-5 angle) followed by yaw about z: q = q_z(yaw) (x) q_x
    qx = np.array([Fr(3, 1) / Fr(10, 1) ** Fr(1, 1), 0, 0, 0]) if False else None
    cx, sx = (Fr(2, 1), Fr(1, 1))      # half-angle with cos = 2/sqrt5, sin = 1/sqrt5 is irrational: use cos = 4/5, sin = 3/5 half-angle
    qxv = np.array([Fr(4, 5), Fr(3, 5), 0, 0], dtype=object) if h.sym else np.array([0.8, 0.6, 0.0, 0.0])
    qz = np.array([ch, 0.0, 0.0, sh], dtype=object if h.sym else float)
    q = rot.qmul(qz, qxv)
    R = rot.R_of_q(q)
    g = np.array([0.0, 0.0, 1.0])
    mref = np.array([Fr(3, 5), 0, Fr(4, 5)], dtype=object) if h.sym else np.array([0.6, 0.0, 0.8])
    a = R.T @ (g.astype(object) if h.sym else g)
    m = R.T @ mref
    for tag, qe in (('SAAM', flt.SAAM().estimate(a.copy(), m.copy())), ('FAMC', flt.FAMC().estimate(a.copy(), m.copy()))):
        qe = np.array(qe)
        h.out(tag, qe, mod_sign=True)
        h.check(f'{tag}: unit', h.is_unit(qe))
        Re = rot.R_of_q(qe)
        # documented direction (sensor frame from local frame, up to the estimator's own convention): one of R_e, R_e^T maps g -> a
        h.check(f'{tag}: gravity reproduced', h.eq(Re.T @ g, a) | h.eq(Re @ g, a))
        h.check(f'{tag}: field direction reproduced', h.eq(Re.T @ mref, m) | h.eq(Re @ mref, m))


@harness('C04/QUEST.fixed-point', functions=[FF + 'quest:QUEST.estimate'], tiers=('thorough',), max_paths=16,
         bounds='QUEST run symbolically with its 11 Newton iterations is not attempted; the characteristic polynomial the code '
                'builds is rebuilt from the same B matrix terms and its root checked')
def quest_fp(h):
    """QUEST: with consistent data lambda = sum of weights is a root of the characteristic polynomial (a, b, c, d, k as in the code)"""
    h.definedness = 'assume'
    q, R, g, mref, a, m, (s1, s2, cd, sd) = _truth(h, 'NED', dip=False, scales=False)
    f = flt.QUEST(magnetic_dip=np.array([0.6, 0.0, 0.8]))
    w = f.w
    B = w[0] * np.outer(a, np.array(f.g_q, dtype=object if h.sym else float)) + w[1] * np.outer(m, np.array(f.m_q, dtype=object if h.sym else float))
    S = B + B.T
    z = np.array([B[1, 2] - B[2, 1], B[2, 0] - B[0, 2], B[0, 1] - B[1, 0]])
    sigma = B.trace()
    Delta = rot.det3(S)
    adj = np.array([[S[1, 1] * S[2, 2] - S[1, 2] * S[2, 1], 0, 0], [0, S[0, 0] * S[2, 2] - S[0, 2] * S[2, 0], 0],
                    [0, 0, S[0, 0] * S[1, 1] - S[0, 1] * S[1, 0]]], dtype=object if h.sym else float)
    kappa = adj[0, 0] + adj[1, 1] + adj[2, 2]
    a_ = sigma * sigma - kappa
    b_ = sigma * sigma + z @ z
    c_ = Delta + z @ S @ z
    d_ = z @ S @ S @ z
    k_ = a_ * b_ + c_ * sigma - d_
    lam = float(w.sum())
    phi = lam ** 4 - (a_ + b_) * lam ** 2 - c_ * lam + k_
    h.check('phi(sum of weights) == 0 on consistent data', h.eq(phi, 0.0))


STRATA_Q = [(Fr(1, 2), Fr(1, 2), Fr(1, 2), Fr(1, 2)), (Fr(1, 5), Fr(2, 5), Fr(2, 5), Fr(4, 5)), (Fr(2, 9), Fr(4, 9), Fr(5, 9), Fr(6, 9)),
            (Fr(10, 11), Fr(1, 11), Fr(2, 11), Fr(4, 11))]


@harness('C04/SAAM-FAMC.strata', functions=[FF + 'saam:SAAM.estimate', FF + 'famc:FAMC.estimate', FF + 'saam:SAAM._compute_all'], max_paths=16, algcert_s=40.0,
         bounds='four exact rational attitudes in general position (strata), dip 53.13 degrees, symbolic positive scalings of both measurements')
def saam_famc_strata(h):
    """SAAM / FAMC on consistent data at four rational general-position attitudes with symbolic scalings"""
    h.definedness = 'assume'
    s1 = h.real('s1', 0.1, 20.0)
    s2 = h.real('s2', 0.1, 80.0)
    h.pool(s1, s2)
    g = np.array([0, 0, 1], dtype=object) if h.sym else np.array([0.0, 0.0, 1.0])
    mref = np.array([Fr(3, 5), 0, Fr(4, 5)], dtype=object) if h.sym else np.array([0.6, 0.0, 0.8])
    for k, qv in enumerate(STRATA_Q):
        q = np.array(list(qv), dtype=object) if h.sym else np.array([float(x) for x in qv])
        R = rot.R_of_q(q)
        a = s1 * (R.T @ g)
        m = s2 * (R.T @ mref)
        for tag, est, exp in (('SAAM', flt.SAAM().estimate, rot.qconj(q)), ('FAMC', flt.FAMC().estimate, q)):
            qe = np.array(est(a.copy(), m.copy()))
            h.out(f'{tag}{k}', qe, mod_sign=True)
            h.check(f'{tag} at stratum {k}: the documented quaternion (+-conj(q_true) for SAAM, +-q_true for FAMC)', h.same_quat(qe, exp) & h.is_unit(qe))
        Qb = np.array(flt.SAAM(np.array([a, a]), np.array([m, m])).Q)
        h.check(f'SAAM batch at stratum {k}: +-conj(q_true)', h.same_quat(Qb[1], rot.qconj(q)) & h.is_unit(Qb[1]))
