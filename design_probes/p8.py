import sys; sys.path.insert(0,'/tmp/probe')
exec(open('/tmp/probe/p6.py').read().split("def run_triad")[0])
from portfolio import run_portfolio
import ahrs.filters.famc as famc
def report3(name, run, extra=[], kind_='quat', tmo=60):
    t0=time.time(); paths=explore(run); print(name,'paths',len(paths), 'explore', round(time.time()-t0,1))
    for i,(pc,defs,oblig,(kind,val)) in enumerate(paths):
        if kind=='exc': print('  EXC',repr(val), ''.join(traceback.format_tb(val.__traceback__)[-2:])[:300]); continue
        est, truth = val
        est=[lift(e) for e in _np.asarray(est,dtype=object).ravel()]; truth=[lift(e) for e in _np.asarray(truth,dtype=object).ravel()]
        if kind_=='mat': cons=pc+defs+extra+[z3.Or([e!=t for e,t in zip(est,truth)])]
        else: cons=pc+defs+extra+[z3.Or([e!=t for e,t in zip(est,truth)]), z3.Or([e!=-t for e,t in zip(est,truth)])]
        print('  p',i, 'exact', run_portfolio(cons, tmo, f'{name}{i}')); sys.stdout.flush()
        seen=set(); und=[]
        for j,(k,term,pcs) in enumerate(oblig):
            key=(k,term.get_id())
            if key in seen: continue
            seen.add(key); und.append(term==0 if k=='div' else term<0)
        print('  p',i, 'defined(all %d)'%len(und), run_portfolio(pc+defs+extra+[z3.Or(und)], tmo, f'{name}{i}d')); sys.stdout.flush()
def run_triad():
    q,R,g,mref,a,m=setup()
    t=triad.TRIAD(v1=g, v2=mref, frame='NED')
    return t.estimate(a,m), R.T
CTX.pool=[z3.RealVal(1), s1, s2, cd, s1*s2, cd*s1*s2]
report3('TRIAD', run_triad, kind_='mat'); print('rewrites',getattr(CTX,'rewrites',0),'queries',CTX.queries,'qtime',round(CTX.qtime,1))
w,x,y,z=qv
gp=[w*w>=z3.RealVal('0.0025'),x*x>=z3.RealVal('0.0025'),y*y>=z3.RealVal('0.0025'),z*z>=z3.RealVal('0.0025')]
def run_saam():
    q,R,g,mref,a,m=setup()
    return saam.SAAM().estimate(a,m), q
report3('SAAMgp', run_saam, gp); print('rewrites',getattr(CTX,'rewrites',0),'queries',CTX.queries,'qtime',round(CTX.qtime,1))
def run_famc():
    q,R,g,mref,a,m=setup()
    return famc.FAMC().estimate(a,m), q
report3('FAMCgp', run_famc, gp); print('rewrites',getattr(CTX,'rewrites',0),'queries',CTX.queries,'qtime',round(CTX.qtime,1))
