#!/usr/bin/env python3
"""Regenerates MANIFEST.json from the table below (keeps it schema-valid)."""
import json, os
HERE = os.path.dirname(os.path.abspath(__file__))
TECH = "bounded symbolic execution of the real Python/NumPy code (symnp) + SMT (z3 5.1 / z3 4.8 / cvc5, QF_NRA), counterexamples replayed on the unpatched code"
NOTE = ("Trusted base: symnp's model of the NumPy surface (symnp/proxy.py), the SMT solvers, exact-real semantics for IEEE doubles "
        "(rounding/overflow/NaN propagation not modelled). Claim per obligation: for all real inputs in the harness domain, on every "
        "explored path; undecided obligations are listed in the evidence and not claimed.")
CHECKS = {
 'C04': "Consistent measurements a = s1 R(q)^T g, m = s2 R(q)^T m_ref are built in the harness from a symbolic truth q, dip and scales; TRIAD, ecompass/am2DCM (both frames), Tilt/acc2q are executed on them and the solver decides that the returned rotation maps the references onto the measurements (equals R(q)^T where a matrix is returned); Davenport through the eig certificate contract (the truth is a unit eigenvector of the K the code built). SAAM/FAMC on one-parameter families and QUEST's characteristic-polynomial root are thorough-tier; FQA, AQUA, OLEQ, FLAE are not claimed.",
 'C20': "Sensors(quaternions=Q) is executed on N=3 symbolic unit rows and symbolic reference vectors with the module's random generator replaced by the RNG contract (fresh symbol per draw): the solver decides that rotations, accelerometers, magnetometers, quaternions and gyroscopes (bias and noise identified by their symbols, degrees and radians) are exactly the stated functions of the ground truth, for zero and symbolic noise levels.",
 'C15': "Differential symbolic execution on concrete place strata (equator, prime meridian, poles, +-180) with a symbolic height: constructor vs method, a fresh object vs one that has already answered another query (date given again and date=None), ENU vs NED, H/F/I/D against X/Y/Z (inverse-trig results through their arguments), +180 vs -180; the solver separates differing computations (polynomials in a/r(h)). The constructor's decimal-date round trip is enumerated over the 151 grid dates.",
 'C14': "Compositional: the longitude-harmonic recursion (symbolic longitude, m<=12), the Legendre recursion and Schmidt factors of denormalize_coefficients (symbolic geocentric latitude, against an independent derivative-formula generator), the synthesis loop and geocentric-to-geodetic rotation of magnetic_field (executed on fresh symbols for the Legendre / longitude / Gauss arrays through a harness subclass stub) and geodetic2spherical are each decided by the solver on the real code; coefficient loading and date->file selection are finite domains enumerated completely.",
 'C16': "ReferenceEllipsoid is executed with symbolic (a, f, GM, w) and a symbolic latitude/height: the defining identities of b, e^2, e'^2, E, m and Pizzetti's theorem are rational identities decided by the solver with arctan(e') an inverse-trig atom whose value cancels; Somigliana's formula at the equator / poles, its latitude symmetry and the height factor are decided on the real code; the zero-flattening branch is its own path with the rotating-sphere limits as oracle.",
 'C11': "Accept side: constructors are executed on symbolic non-zero vectors / rows / angles / RNG draws and the solver decides unit norm, same direction and R R^T = I, det = 1. Reject side: a fully symbolic 3x3 matrix is pushed through DCM(M), Quaternion(dcm=M) and QuaternionArray(DCM=M[None]); on every path that does not raise ValueError the solver must show max|M M^T - I| <= 1e-4 and |det M - 1| <= 1e-4 (so everything farther from SO(3) is rejected); zero vectors and a concrete lattice of wrong shapes must raise.",
 'C06': "Differential symbolic execution with N=3 symbolic samples per filter: constructor over the history vs. a fresh instance fed sample by sample through update*(), a repeated batch run, and an unrelated instance stepping in between; the solver decides equality of every output row and of the carried state (bias / covariance), so the step is inductive. Quick: Mahony-IMU, ROLEQ, AngularRate, EKF streaming, FLAE weights; thorough adds Madgwick, the MARG variants, AQUA and EKF.",
 'C13': "One faulty step per recursive filter with the dropped sample exactly zero (acc and/or mag, and gyr) and everything else symbolic, from an arbitrary valid state; for FKF / Complementary a zero middle row in an N=3 history. The solver decides on every path that the outcome is a ValueError or a defined unit quaternion (and defined post-state); NaN-producing paths are reachability obligations replayed on the real code. The recovery clause is not claimed.",
 'C03': "One inductive step per estimator from an arbitrary valid pre-state (unit quaternion, free bias) with symbolic non-zero, non-parallel samples: every division / sqrt / arccos on every path is a definedness obligation for the solver (a satisfiable one is a NaN witness, replayed), plus unit-norm / proper-rotation / shape obligations and N=3 batch runs. Quick tier: Madgwick-IMU, Mahony-IMU, Tilt, TRIAD, SAAM, FAMC, AQUA.estimate, AngularRate, Complementary, UKF (level stratum); thorough adds the MARG variants, EKF, ROLEQ and UKF from an arbitrary state.",
 'C08': "AngularRate's closed form is executed for n = 1..3 steps (and through the N=4 constructor) on symbolic rate, step and attitude, with the angle |w|dt/2 an opaque angle atom, and compared with q0 (x) (cos(n a), sin(n a) w/|w|); the series method of order 0..6 is compared with the normalised matrix Taylor polynomial applied to q0; the dead-reckoning steps of Madgwick, Mahony, AQUA, EKF.f and ROLEQ are compared with normalise(q + dt/2 q (x) (0,w)).",
 'C12': "Both slerp copies are executed on a parametrisation of all unit pairs (p, d p + sqrt(1-d^2) e) with weights from a rational grid; unit norm, end points, sign symmetry and p.out = cos(t theta0) (the code's own arccos atom at granularity 12) are decided by the solver (algebraic certificates checked by z3); the minor-arc inequalities are attempted. slerp_nan is executed for every interior NaN mask up to N=5 (quick: three masks) against slerp of the neighbours; remove_jumps / q_correct for every sign pattern up to N=4 rows.",
 'C18': "The seven metrics are executed on symbolic unit quaternions / rotation matrices and their results compared by the solver with the closed forms in d = p.q (8(1-d^2), 2(1-|d|), 1-|d|, arccos|d|, arccos(2d^2-1)); non-negativity, zero set, symmetry and sign invariance are decided on the real code, left/right invariance by the certified lemma (sp).(sq) = p.q plus the closed forms; the allclose shortcuts are branch sides the solver must refute. Quick tier: restricted pair domain (stated in the evidence); thorough: relative angles down to 1e-4 and angular_distance.",
 'C17': "ECEF<->ENU (both directions, rigidity, origin), ENU<->AER, ENU<->DCA, NED<->ENU and the llf/ecef rotation matrices are executed on symbolic latitudes/longitudes/angles (degree-valued angle atoms) and symbolic offsets; the round trips are trig-polynomial identities decided by the solver. The geodetic<->ECEF round trip through the iterative ecef2geodetic is attempted in the thorough tier only and is not claimed.",
 'C10': "Round trips rpy<->quaternion (single, array, free functions, degrees), axis-angle<->quaternion and <->matrix, exp(log q), powers, DCM.log and every Euler-sequence constructor are executed on symbolic angle atoms (one (cos,sin) pair per atom; inverse-trig results compared by cross-multiplication) and compared with the input angles / ordered products of elementary rotations for all angles in the stated ranges.",
 'C19': "Table-driven symbolic execution of the public callables of ahrs.common.orientation/quaternion/dcm, ahrs.utils.metrics and the filters' estimate/update entry points on fresh symbolic (non-normalised, degree-valued) argument arrays; aliasing is exact on object arrays, so the solver decides for all inputs whether any element of an argument differs from its saved term after the call and whether a second call returns the same result.",
 'C07': "Differential symbolic execution: every N-row entry point (QuaternionArray methods, batch branches of chiaverini/hughes, batch metrics, vectorised Tilt/SAAM) is run on symbolic rows (N=2 and N=1) next to its single-item twin and the solver decides row-by-row equality modulo real algebra (inverse-trig results compared through their arguments).",
 'C02': "Each of the seven method/version choices is executed on R = R_ref(q) for every unit q (closed-form methods: angle <= pi - 1e-6) through the public dispatchers, on every pivot/threshold path (sign strata of q forked); out = +-q, |out| = 1 and all sqrt/division definedness obligations are decided by the solver. np.linalg.eig is a certificate-based contract checked on the K matrix the code built.",
 'C09': "Associativity, norm multiplicativity, conjugate anti-homomorphism, inverse, left/right product matrices, agreement of all product entry points and transparency of the storage order are polynomial identities decided on the terms built by the real methods, for arbitrary (non-normalised) and unit quaternions.",
 'C01': "All six quaternion->matrix copies, the four product entry points, rotate/q_rot/q_conj are shown equal to textbook oracles for every unit quaternion (and every non-zero one for the normalising routes, thorough tier); the homomorphism law follows by solver-checked cut lemmas. Straight-line code, so there is no path or loop bound.",
}
NA = {
 'C05': "trajectory-level convergence over hundreds of nonlinear filter steps: bounded unrolling cannot reach it and the per-step Lyapunov descent obligation is undecided by z3 5.1, z3 4.8 and cvc5 (120 s each) already for Mahony-IMU; see DESIGN.md C05",
}
PENDING = "check not built yet (build in progress this round; see DESIGN.md section 9 for the order)"
ALL = [f"C{i:02d}" for i in range(1, 21)]

def main():
    checks = []
    for pid in ALL:
        if pid in CHECKS:
            checks.append(dict(
                property_id=pid, quick_cmd=f"./check {pid} --tier quick", thorough_cmd=f"./check {pid} --tier thorough",
                evidence_file=f"/verif/evidence/{pid}.json", replay_cmd_template=f"./check {pid} --replay {{path}}",
                engine="symnp",
                level_claimed=dict(category="other", text=CHECKS[pid], design_ref=f"DESIGN.md section 4, {pid}"),
                level_note=NOTE, technique=TECH))
    na = [dict(property_id=p, reason=NA.get(p, PENDING)) for p in ALL if p not in CHECKS]
    m = dict(version=1, setup_cmd="./setup.sh",
             hooks=dict(guard="AHRS_VERIF", enable="none needed: symnp re-binds the module globals np/float of the imported ahrs modules from outside; no source hooks",
                        baseline_off_cmd="cd /repo && /venv/bin/python -m pytest -q -p no:cacheprovider --timeout=900 tests",
                        source_commits=[], add_only=True),
             engines=[dict(name="symnp", path="/verif/symnp", serves_properties=sorted(CHECKS),
                           kind_free_text="symbolic execution of the real NumPy code on object arrays of z3 terms + SMT portfolio")],
             checks=checks, not_applicable=na,
             notes="Exit codes: 0 held / 1 VIOLATION (replayed counterexample) / 2 harness error. Known findings: /verif/known_findings.json.")
    json.dump(m, open(os.path.join(HERE, 'MANIFEST.json'), 'w'), indent=1)
    try:
        import jsonschema
        jsonschema.validate(m, json.load(open('/root/.vp/MANIFEST.schema.json')))
        print("MANIFEST.json valid;", len(checks), "checks,", len(na), "not applicable")
    except ImportError:
        print("written (jsonschema unavailable)")
if __name__ == '__main__':
    main()
