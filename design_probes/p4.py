import sys; sys.path.insert(0,'/repo'); sys.path.insert(0,'/tmp/probe')
import time, z3, numpy as _np
from proto import *
import trig
from trig import TH
import ahrs
import ahrs.common.orientation as ori, ahrs.common.quaternion as quat, ahrs.common.dcm as dcm, ahrs.utils.core as core
import ahrs.filters.madgwick as mad, ahrs.filters.mahony as mah
patch([ori, quat, dcm, core, mad, mah])
def vec(names): 
    v=[z3.Real(n) for n in names]; return v, _np.array([SR(t) for t in v], dtype=object)
def solve(name, cons, tmo=60000):
    s=z3.Solver(); s.set('timeout',tmo)
    for c in cons: s.add(c)
    t=time.time(); r=s.check(); print('   ',name, r, round(time.time()-t,2)); sys.stdout.flush()
    if r==z3.sat: print('        ', str(s.model())[:300].replace('\n',' '))
    return r
def one_step(name, mk_filter, meth, with_mag=False):
    t0=time.time()
    qv,_=vec(['qw','qx','qy','qz']); gv,_=vec(['gx','gy','gz']); av,_=vec(['ax','ay','az'])
    pre=[sum(t*t for t in qv)==1, sum(t*t for t in av)==1]
    def run():
        TH.reset()
        f=mk_filter()
        _,q=vec(['qw','qx','qy','qz']); _,g=vec(['gx','gy','gz']); _,a=vec(['ax','ay','az'])
        CTX.pc += pre
        return getattr(f,meth)(q,g,a)
    paths=explore(run)
    print(name,'paths',len(paths), 'explore time', round(time.time()-t0,1), 'feas queries', CTX.queries)
    for i,(pc,defs,oblig,(kind,val)) in enumerate(paths):
        if kind=='exc':
            import traceback; print('  EXC',repr(val), ''.join(traceback.format_tb(val.__traceback__)[-2:])[:500]); continue
        print('  path',i,'pc',len(pc),'defs',len(defs),'oblig',len(oblig))
        for j,(k,term,pcs) in enumerate(oblig):
            solve(f'oblig{j} {k}', pc+defs+[term==0 if k=='div' else term<0], 30000)
        out=[lift(e) for e in val]
        solve('unit norm', pc+defs+[sum(t*t for t in out)!=1], 30000)
one_step('madgwick IMU', lambda: mad.Madgwick(), 'updateIMU')
one_step('mahony IMU', lambda: mah.Mahony(), 'updateIMU')
