import sys; sys.path.insert(0,'/repo'); sys.path.insert(0,'/tmp/probe')
import time, z3, numpy as _np
from proto import *
import ahrs
import ahrs.common.orientation as ori, ahrs.common.quaternion as quat, ahrs.common.dcm as dcm, ahrs.utils.core as core
patch([ori, quat, dcm, core])

def mk_q():
    v=[z3.Real(n) for n in 'wxyz']
    return v, _np.array([SR(t) for t in v], dtype=object)
def check(name, method, **kw):
    t0=time.time()
    v,_=mk_q()
    unit = v[0]*v[0]+v[1]*v[1]+v[2]*v[2]+v[3]*v[3]==1
    def run():
        _,q=mk_q()
        CTX.pc.append(unit); CTX.pc.append(v[0]*v[0] >= z3.RealVal('2.5e-13'))
        R = quat.Quaternion(q, versor=False).to_DCM()
        return getattr(ori, method)(R, **kw)
    paths=explore(run)
    CTX.queries=0; 
    nq=0; res=[]
    for pc,defs,oblig,(kind,val) in paths:
        if kind=='exc':
            import traceback; res.append(('EXC',repr(val)+''.join(traceback.format_tb(val.__traceback__)[-2:]))); continue
        # undefinedness: any division by zero / sqrt of negative feasible?
        for (k,term,pcs) in oblig:
            s=z3.Solver(); s.set('timeout',30000)
            for c in pc+defs: s.add(c)
            s.add(term==0 if k=='div' else term<0)
            r=s.check(); nq+=1
            if r!=z3.unsat: res.append(('UNDEF',k,str(r), s.model() if r==z3.sat else None))
        out=[lift(e) for e in val]
        s=z3.Solver(); s.set('timeout',60000)
        for c in pc+defs: s.add(c)
        s.add(z3.Or([out[i]!=v[i] for i in range(4)])); s.add(z3.Or([out[i]!=-v[i] for i in range(4)]))
        r=s.check(); nq+=1
        res.append(('RT',str(r), s.model() if r==z3.sat else None))
    print(name, 'paths',len(paths), 'queries',nq, 'time',round(time.time()-t0,1))
    from collections import Counter
    print('   ', Counter((r[0],r[1][:300]) if r[0]!='UNDEF' else r[:3] for r in res))
    for r in res:
        if r[0] in('UNDEF',) or (r[0]=='RT' and r[1]!='unsat') or r[0]=='EXC': print('   ', str(r)[:300].replace(chr(10),' ')); 
check('shepperd','shepperd')
check('chiaverini','chiaverini')
check('hughes','hughes')
check('sarabandi','sarabandi')
