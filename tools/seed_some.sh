#!/bin/bash
# usage: seed_some.sh PID:i ...   (sequential; evaluates /tmp/wt_<PID>/out/m<i>, or re-evaluates seeded/<PID>-m<i> when the scratch output is gone)
cd /verif
for a in "$@"; do p=${a%%:*}; i=${a##*:}
  src=/tmp/wt_$p/out/m$i; [ -d $src ] || src=/verif/seeded/$p-m$i
  timeout 3000 .venv/bin/python tools/seed_eval.py $p /tmp/wt_$p $src ${p}-m$i 2>&1 | python3 -c "import sys,json
try:
    d=json.load(sys.stdin); print(d['id'], 'confirmed' if d['confirmed'] else 'NOT-CONFIRMED', 'DETECTED' if d.get('detected') else 'MISSED', d.get('check_exit'), d.get('wall_s'), d.get('violations'))
except Exception as e: print('$p-m$i', 'ERROR', e)"
done
