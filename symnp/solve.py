"""symnp solver back ends: in-process z3 (quick pass) and a subprocess portfolio
(z3 5.1 binary, z3 4.8.12, cvc5) on the same SMT-LIB text."""
import os
import re
import shutil
import subprocess
import tempfile
import time
from fractions import Fraction as F

import z3

_HERE = os.path.dirname(os.path.abspath(__file__))


def _find_bins():
    bins = {}
    z3new = shutil.which('z3-new') or os.path.join(_HERE, '..', '.venv', 'bin', 'z3')
    if z3new and os.path.exists(z3new):
        bins['z3-5.1'] = os.path.abspath(z3new)
    if os.path.exists('/usr/bin/z3'):
        bins['z3-4.8'] = '/usr/bin/z3'
    c5 = shutil.which('cvc5')
    if c5:
        bins['cvc5'] = c5
    py = os.path.join(_HERE, '..', '.venv', 'bin', 'python')
    if os.path.exists(py):
        bins['cvc5-1.4'] = os.path.abspath(py)
    return bins


BINS = _find_bins()


def model_value(m, v):
    x = m.eval(v, model_completion=True)
    if z3.is_rational_value(x):
        return F(x.numerator_as_long(), x.denominator_as_long())
    if z3.is_algebraic_value(x):
        a = x.approx(30)
        return F(a.numerator_as_long(), a.denominator_as_long())
    if z3.is_int_value(x):
        return F(x.as_long())
    try:
        s = x.as_decimal(30).rstrip('?')
        return F(s)
    except Exception:
        return None


def solve_inproc(constraints, timeout_ms, want=None):
    """-> (status, model_dict|None, seconds). want: dict name->z3 var to report"""
    s = z3.Solver()
    s.set('timeout', int(timeout_ms))
    s.set('rlimit', int(timeout_ms) * 20000)
    for c in constraints:
        s.add(c)
    t = time.time()
    r = guarded_check(s, timeout_ms)
    dt = time.time() - t
    if r == z3.unsat:
        return 'unsat', None, dt
    if r == z3.sat:
        m = s.model()
        env = {}
        for n, v in (want or {}).items():
            val = model_value(m, v)
            if val is not None:
                env[n] = val
        return 'sat', env, dt
    return 'unknown', None, dt


def guarded_check(s, timeout_ms):
    """z3 check() with a watchdog: z3's own timeout is not always honoured inside nlsat; interrupt() is"""
    import threading
    done = threading.Event()

    def fire():
        if not done.is_set():
            try:
                s.interrupt()
            except Exception:
                pass
    tm = threading.Timer(timeout_ms / 1000.0 + 0.4, fire)
    tm.daemon = True
    tm.start()
    try:
        try:
            return s.check()
        except z3.Z3Exception:
            return z3.unknown
    finally:
        done.set()
        tm.cancel()
        tm.join()          # the solver object must outlive a callback that is already running


def cvc5_inproc(constraints, timeout_ms):
    """cvc5 on the SMT-LIB rendering of the constraints, as a subprocess that is killed at the deadline (the in-process
    wheel does not always honour tlimit). Only the verdict is used (no model)."""
    t = time.time()
    binp = BINS.get('cvc5')
    if binp is None:
        return 'unknown', 0.0
    fn = None
    try:
        txt = '(set-logic ALL)\n' + to_smt2(constraints) + '(check-sat)\n'
        fd, fn = tempfile.mkstemp(suffix='.smt2')
        with os.fdopen(fd, 'w') as f:
            f.write(txt)
        p = subprocess.run([binp, f'--tlimit={max(50, int(timeout_ms))}', fn], capture_output=True, text=True,
                           timeout=timeout_ms / 1000.0 + 1.0)
        first = p.stdout.strip().split('\n')[0].strip() if p.stdout.strip() else ''
        st = first if first in ('sat', 'unsat') else 'unknown'
    except Exception:
        st = 'unknown'
    finally:
        if fn:
            try:
                os.unlink(fn)
            except OSError:
                pass
    return st, time.time() - t


def _cvc5_wheel_inproc(constraints, timeout_ms):
    try:
        import cvc5
    except ImportError:
        return 'unknown', 0.0
    t = time.time()
    try:
        txt = to_smt2(constraints)
        tm = cvc5.TermManager()
        slv = cvc5.Solver(tm)
        slv.setOption('tlimit-per', str(max(50, int(timeout_ms))))
        slv.setLogic('ALL')
        ip = cvc5.InputParser(slv)
        ip.setStringInput(cvc5.InputLanguage.SMT_LIB_2_6, txt, 'q')
        sm = ip.getSymbolManager()
        while True:
            c = ip.nextCommand()
            if c.isNull():
                break
            c.invoke(slv, sm)
        r = slv.checkSat()
        st = 'unsat' if r.isUnsat() else ('sat' if r.isSat() else 'unknown')
    except Exception:
        st = 'unknown'
    return st, time.time() - t


def to_smt2(constraints, want=None):
    """SMT-LIB2 text without set-logic / check-sat (added per back end)"""
    s = z3.Solver()
    for c in constraints:
        s.add(c)
    txt = s.to_smt2()
    txt = txt.replace('(set-info :status unknown)', '')
    txt = txt.replace('(check-sat)', '')
    return txt


_VAL_RE = re.compile(r'\(\s*([^\s()]+|\|[^|]*\|)\s+(.*?)\)\s*(?=\(|\)$)', re.S)


def _parse_num(tok):
    tok = tok.strip()
    tok = tok.replace('?', '')
    m = re.fullmatch(r'\(\s*-\s*(.*)\)', tok, re.S)
    if m:
        v = _parse_num(m.group(1))
        return None if v is None else -v
    m = re.fullmatch(r'\(\s*/\s*(\S+)\s+(\S+)\s*\)', tok, re.S)
    if m:
        a, b = _parse_num(m.group(1)), _parse_num(m.group(2))
        return None if a is None or b is None or b == 0 else a / b
    try:
        return F(tok)
    except Exception:
        return None


def _parse_values(out, names):
    env = {}
    for n in names:
        pat = re.escape(n) if re.fullmatch(r'[A-Za-z_][A-Za-z0-9_.]*', n) else re.escape('|' + n + '|')
        m = re.search(r'\(\s*' + pat + r'\s+((?:\([^()]*(?:\([^()]*\)[^()]*)*\))|[^\s()]+)\s*\)', out)
        if m:
            v = _parse_num(m.group(1))
            if v is not None:
                env[n] = v
    return env


def run_binary(name, smt_body, timeout_s, names=None, workdir=None):
    """-> (status, env|None, seconds)"""
    binp = BINS.get(name)
    if binp is None:
        return 'unavailable', None, 0.0
    names = names or []
    head = ''
    tail = '(check-sat)\n'
    if name.startswith('z3'):
        head = '(set-option :pp.decimal true)\n(set-option :pp.decimal_precision 25)\n'
        cmd = [binp, f'-T:{int(timeout_s)}']
    else:
        head = '(set-logic ALL)\n'
        cmd = [binp, f'--tlimit={int(timeout_s * 1000)}', '--produce-models']
    if names:
        qn = [n if re.fullmatch(r'[A-Za-z_][A-Za-z0-9_.]*', n) else '|' + n + '|' for n in names]
        tail += '(get-value (' + ' '.join(qn) + '))\n'
    fd, fn = tempfile.mkstemp(suffix='.smt2', dir=workdir)
    with os.fdopen(fd, 'w') as f:
        f.write(head + smt_body + tail)
    t = time.time()
    try:
        p = subprocess.run(cmd + [fn], capture_output=True, text=True, timeout=timeout_s + 10)
        out = p.stdout
    except subprocess.TimeoutExpired:
        out = 'timeout'
    finally:
        try:
            os.unlink(fn)
        except OSError:
            pass
    dt = time.time() - t
    first = out.strip().split('\n')[0].strip() if out.strip() else ''
    if first == 'unsat':
        if '(error' in out.split('\n', 1)[0]:
            return 'unknown', None, dt
        return 'unsat', None, dt
    if first == 'sat':
        env = _parse_values(out, names) if names else {}
        return 'sat', env, dt
    return 'unknown', None, dt


def portfolio(smt_body, timeout_s, names=None, solvers=None, workdir=None):
    """run the back ends in parallel; first definite answer wins.
    -> (status, env, decided_by, seconds, detail)"""
    import concurrent.futures as cf
    solvers = [s for s in (solvers or list(BINS)) if s in BINS]
    t0 = time.time()
    detail = {}
    # run via Popen to be able to kill losers
    procs = {}
    files = []
    names = names or []
    for name in solvers:
        binp = BINS[name]
        if name.startswith('z3'):
            head = '(set-option :pp.decimal true)\n(set-option :pp.decimal_precision 25)\n'
            cmd = [binp, f'-T:{int(timeout_s)}']
        elif name == 'cvc5-1.4':
            head = '(set-logic ALL)\n'
            cmd = [binp, os.path.join(_HERE, 'cvc5cli.py'), str(int(timeout_s * 1000))]
        else:
            head = '(set-logic ALL)\n'
            cmd = [binp, f'--tlimit={int(timeout_s * 1000)}', '--produce-models']
        tail = '(check-sat)\n'
        if names:
            qn = [n if re.fullmatch(r'[A-Za-z_][A-Za-z0-9_.]*', n) else '|' + n + '|' for n in names]
            tail += '(get-value (' + ' '.join(qn) + '))\n'
        fd, fn = tempfile.mkstemp(suffix='.smt2', dir=workdir)
        with os.fdopen(fd, 'w') as f:
            f.write(head + smt_body + tail)
        files.append(fn)
        procs[name] = subprocess.Popen(cmd + [fn], stdout=subprocess.PIPE, stderr=subprocess.STDOUT, text=True)
    status, env, by = 'unknown', None, None
    pending = dict(procs)
    answers = {}
    try:
        while pending and time.time() - t0 < timeout_s + 10:
            for name, p in list(pending.items()):
                rc = p.poll()
                if rc is None:
                    continue
                out = p.stdout.read()
                del pending[name]
                first = out.strip().split('\n')[0].strip() if out.strip() else ''
                if '(error' in out and first not in ('sat', 'unsat'):
                    first = 'error'
                if first in ('sat', 'unsat') and '(error' in out.split('(get-value')[0] and 'model is not available' not in out:
                    # an error before the verdict makes it inconclusive
                    lines = [l for l in out.split('\n') if l.startswith('(error')]
                    if lines and out.index(lines[0]) < out.index(first):
                        first = 'error'
                answers[name] = first
                detail[name] = (first[:30], round(time.time() - t0, 2))
                if first in ('sat', 'unsat') and status == 'unknown':
                    status, by = first, name
                    if first == 'sat':
                        env = _parse_values(out, names) if names else {}
            if status != 'unknown':
                break
            time.sleep(0.02)
    finally:
        for name, p in pending.items():
            try:
                p.kill()
                p.wait(timeout=5)
            except Exception:
                pass
            detail.setdefault(name, ('killed', round(time.time() - t0, 2)))
        for fn in files:
            try:
                os.unlink(fn)
            except OSError:
                pass
    return status, env, by, time.time() - t0, detail


def pin(cons, rounds=3):
    """substitute path equalities `x == numeral` into the other constraints (kept themselves, so models stay complete)"""
    cons = list(cons)
    for _ in range(rounds):
        subs = {}
        for c in cons:
            if z3.is_not(c) or z3.is_and(c):
                c = z3.simplify(c)
            for c in (c.children() if z3.is_and(c) else [c]):
              if z3.is_eq(c) and c.num_args() == 2:
                a, b = c.arg(0), c.arg(1)
                if z3.is_rational_value(a) or z3.is_algebraic_value(a):
                    a, b = b, a
                if z3.is_const(a) and a.decl().kind() == z3.Z3_OP_UNINTERPRETED and z3.is_rational_value(b) and a.sort() == b.sort():
                    subs.setdefault(a.get_id(), (a, b))
        if not subs:
            break
        pairs = list(subs.values())
        keep = [a == b for a, b in pairs]
        new = []
        changed = False
        n_ = len(pairs)
        From = (z3.Ast * n_)(*[a.as_ast() for a, _ in pairs])
        To = (z3.Ast * n_)(*[b.as_ast() for _, b in pairs])
        ctx_ = pairs[0][0].ctx
        for c in cons:
            c2 = z3.simplify(z3.BoolRef(z3.Z3_substitute(ctx_.ref(), c.as_ast(), n_, From, To), ctx_))
            if z3.is_true(c2):
                continue
            if not c2.eq(c):
                changed = True
            new.append(c2)
        cons = keep + new
        if not changed:
            break
    return cons
