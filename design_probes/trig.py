"""prototype trig layer on top of proto.SR: linear-form tracking + (c,s) pairs per unit angle"""
from fractions import Fraction as F
import math, z3
import proto
from proto import SR, CTX, lift, SB
import numpy as _np

# --- linear form tracking: attribute .lin = (dict atom->F, const F) or None
def getlin(x):
    if isinstance(x, SR): return getattr(x,'lin',None)
    if isinstance(x,(int,float,_np.floating,_np.integer)): return ({}, F(float(x)) if not isinstance(x,int) else F(x))
    return None
def _addlin(a,b,sb=1):
    if a is None or b is None: return None
    d=dict(a[0])
    for k,v in b[0].items():
        d[k]=d.get(k,0)+sb*v
        if d[k]==0: del d[k]
    return (d, a[1]+sb*b[1])
def _scal(a,k):
    if a is None: return None
    return ({x:v*k for x,v in a[0].items()} if k!=0 else {}, a[1]*k)
_oadd,_osub,_orsub,_omul,_odiv,_oneg=SR.__add__,SR.__sub__,SR.__rsub__,SR.__mul__,SR.__truediv__,SR.__neg__
def wrap(op, linf):
    def f(s,o):
        r=op(s,o)
        if isinstance(r,SR): r.lin=linf(getlin(s),getlin(o))
        return r
    return f
def _mullin(a,b):
    if a is None or b is None: return None
    if not a[0]: return _scal(b,a[1])
    if not b[0]: return _scal(a,b[1])
    return None
def _divlin(a,b):
    if a is None or b is None or b[0] or b[1]==0: return None
    return _scal(a, 1/b[1])
SR.__add__=wrap(_oadd, lambda a,b:_addlin(a,b)); SR.__radd__=SR.__add__
SR.__sub__=wrap(_osub, lambda a,b:_addlin(a,b,-1))
SR.__rsub__=wrap(_orsub, lambda a,b:_addlin(b,a,-1))
SR.__mul__=wrap(_omul,_mullin); SR.__rmul__=SR.__mul__
SR.__truediv__=wrap(_odiv,_divlin)
def _neg(s):
    r=_oneg(s); r.lin=_scal(getlin(s),-1); return r
SR.__neg__=_neg

class Angles:
    def __init__(self): self.reset()
    def reset(self): self.atoms={}; self.units={}   # atoms: name -> dict(var, lo, hi); units: (name,D)->(c,s)
TH=Angles()
PI=math.pi
def new_angle(name, rng='pm_pi', var=None):
    """declare angle atom; returns SR"""
    v = var if var is not None else z3.Real(name)
    TH.atoms[name]={'var':v,'rng':rng}
    x=SR(v); x.lin=({name:F(1)},F(0))
    pi=z3.RealVal(repr(PI))
    if rng=='pm_pi': CTX.defs += [v>-pi, v<=pi]
    elif rng=='0_pi': CTX.defs += [v>=0, v<=pi]
    elif rng=='pm_halfpi': CTX.defs += [v>=-pi/2, v<=pi/2]
    return x
MAXD={}
class Restart(BaseException): pass
def unit(name, D):
    md=MAXD.get(name,1)
    if md % D != 0:
        MAXD[name]=md*D//math.gcd(md,D); raise Restart()
    at=TH.atoms[name]
    if 'lazy' in at and 'mat' not in at: materialise(name)
    key=(name,md)
    if key not in TH.units:
        if 'lazy' in at and md==1:
            pass
        c=z3.Real(f"c_{name}_{md}"); s=z3.Real(f"s_{name}_{md}")
        TH.units[key]=(c,s)
        CTX.defs.append(c*c+s*s==1)
        rng=at['rng']
        if md==2 and rng=='pm_pi': CTX.defs += [c>=0, z3.Implies(c==0, s==1)]
        if md==2 and rng=='0_pi': CTX.defs += [c>=0, s>=0]
        if md==2 and rng=='pm_halfpi': CTX.defs += [c>0, c*c>=z3.RealVal(1)/2]
        if md==1 and rng=='0_pi': CTX.defs += [s>=0]
        if md==1 and rng=='pm_halfpi': CTX.defs += [c>=0]
        if 'lazy' in at: link_lazy(name)
    c,s=TH.units[key]
    return cs_multiple(c,s,md//D)
def link_lazy(name):
    at=TH.atoms[name]; kind,args=at['lazy']
    c,s=unit(name,1)
    if kind=='atan2':
        ty,tx=args; r=CTX.newvar('hyp'); CTX.defs += [r>=0, r*r==tx*tx+ty*ty, tx==r*c, ty==r*s, z3.Implies(r==0, z3.And(c==1,s==0))]
    elif kind=='asin': CTX.defs += [s==args[0]]
    elif kind=='acos': CTX.defs += [c==args[0]]
def materialise(name): TH.atoms[name]['mat']=True
def cs_multiple(c,s,k):
    """cos(k u), sin(k u) from cos u, sin u; k integer"""
    if k<0:
        ck,sk=cs_multiple(c,s,-k); return ck,-sk
    ck,sk=z3.RealVal(1),z3.RealVal(0)
    for _ in range(k): ck,sk = ck*c-sk*s, sk*c+ck*s
    return ck,sk
def cossin(x):
    lin=getlin(x)
    if lin is None: raise NotImplementedError(f"trig of non-linear angle term {x}")
    d,c0=lin
    C,S=z3.RealVal(1),z3.RealVal(0)
    for name,k in d.items():
        D=k.denominator
        c,s=unit(name,D)
        ck,sk=cs_multiple(c,s,k.numerator)
        C,S = C*ck-S*sk, S*ck+C*sk
    if c0!=0:
        q=float(c0)/(PI/2)
        if abs(q-round(q))<1e-12:
            kk=round(q)%4; cc,ss=[(1,0),(0,1),(-1,0),(0,-1)][kk]
        else: cc,ss=math.cos(float(c0)),math.sin(float(c0)); cc,ss=z3.RealVal(repr(cc)),z3.RealVal(repr(ss))
        C,S = C*cc-S*ss, S*cc+C*ss
    return C,S
def sym_cos(x):
    if not isinstance(x,SR): return math.cos(x)
    return SR(cossin(x)[0])
def sym_sin(x):
    if not isinstance(x,SR): return math.sin(x)
    return SR(cossin(x)[1])
_n=[0]
def sym_arctan2(y,x):
    if not isinstance(y,SR) and not isinstance(x,SR): return math.atan2(y,x)
    _n[0]+=1; name=f"atan2_{_n[0]}"
    a=new_angle(name,'pm_pi', CTX.newvar('ang')); TH.atoms[name]['lazy']=('atan2',(lift(y),lift(x)))
    return a
def sym_arcsin(v):
    if not isinstance(v,SR): return math.asin(v)
    _n[0]+=1; name=f"asin_{_n[0]}"
    a=new_angle(name,'pm_halfpi', CTX.newvar('ang')); TH.atoms[name]['lazy']=('asin',(lift(v),))
    CTX.oblig.append(('asinarg', lift(v), list(CTX.pc)))
    return a
def sym_arccos(v):
    if not isinstance(v,SR): return math.acos(v)
    _n[0]+=1; name=f"acos_{_n[0]}"
    a=new_angle(name,'0_pi', CTX.newvar('ang')); TH.atoms[name]['lazy']=('acos',(lift(v),))
    return a
def single_lazy(a):
    lin=getlin(a)
    if lin and len(lin[0])==1 and lin[1]==0:
        (name,k),=lin[0].items()
        if k==1 and 'lazy' in TH.atoms[name] and 'mat' not in TH.atoms[name]: return TH.atoms[name]['lazy']
    return None
P=proxy=proto.np_proxy.__class__
P.cos=lambda self,x: _np.frompyfunc(sym_cos,1,1)(x)
P.sin=lambda self,x: _np.frompyfunc(sym_sin,1,1)(x)
P.arctan2=lambda self,y,x: _np.frompyfunc(sym_arctan2,2,1)(y,x)
P.arcsin=lambda self,x: _np.frompyfunc(sym_arcsin,1,1)(x)
P.arccos=lambda self,x: _np.frompyfunc(sym_arccos,1,1)(x)
def angle_eq(a, b):
    """a: computed angle (maybe lazy inverse-trig atom), b: expected angle in the same principal range"""
    lz=single_lazy(a)
    cb,sb=cossin(b)
    if lz:
        kind,args=lz
        if kind=='atan2':
            ty,tx=args
            return z3.And(tx*sb==ty*cb, tx*cb+ty*sb>0)
        if kind=='asin': return args[0]==sb
        if kind=='acos': return args[0]==cb
    ca,sa=cossin(a)
    return z3.And(ca==cb, sa==sb)
