"""C02 - every DCM->quaternion method inverts quaternion->DCM over SO(3)."""
import numpy as np
from ahrs import Quaternion, QuaternionArray, DCM
from ahrs.common import orientation as ori
from symnp.harness import harness
from reference import rot
from harness import eigstub

PROPERTY = dict(
    id='C02',
    explanation="Domain: R = R_ref(q), |q|=1 (covers SO(3) twice, including exact half-turns w=0 and the identity); for hughes, "
                "chiaverini and sarabandi additionally rotation angle <= pi - 1e-6 (w^2 >= sin^2(0.5e-6)). Each method is reached "
                "through the public dispatchers, so the SO(3) gates are on the path. Oracle: out == +-q and |out| = 1, plus every "
                "division / sqrt definedness obligation on every pivot path. Bar-Itzhack: np.linalg.eig is replaced by a "
                "certificate-based contract (spectral decomposition K = sum lambda_k e_k e_k^T certified by the solver on the "
                "matrix the code built; simple eigenvalue => eigenvector +-e_k, column position and sign arbitrary).",
    bounds="paths <= 64 per harness (quick) / 256 (thorough); QuaternionArray route with N=1 and N=2 rows",
    outside=["LAPACK's numerical eigenvectors (contract)", "rounding near half-turns"],
    assumptions=["np.linalg.eig contract: a real symmetric matrix with certified spectral decomposition returns unit eigenvectors; "
                 "for a simple eigenvalue the eigenvector is +- the certified one; order of eigenvalues arbitrary"],
)

ANG_MIN_W2 = 2.5e-13   # sin^2(0.5e-6) = 2.4999999999998e-13


def _route(h, R, route, method, **kw):
    if route == 'DCM.to_quaternion':
        return np.array(DCM(R.copy()).to_quaternion(method, **kw))
    if route == 'Quaternion(dcm=)':
        return np.array(Quaternion(dcm=R.copy(), method=method, **kw))
    if route == 'QuaternionArray(DCM=)':
        Q = QuaternionArray(DCM=R.copy()[None], method=method, **kw)
        return np.array(Q)[0]
    if route == 'direct':
        return getattr(ori, method)(R.copy(), **kw)
    raise KeyError(route)


def _closed_domain(h, q):
    h.assume(h.ge(q[0] * q[0], ANG_MIN_W2))


def _strata(h, q):
    """w >= 0 without loss of generality (R(q) = R(-q)); fork on the signs of x, y, z; offer 2|q_i| as certified sqrt rewrites"""
    h.assume(h.ge(q[0], 0.0))
    sg = h.split_signs([q[1], q[2], q[3]])
    h.pool(2.0 * q[0], 2.0 * sg[0] * q[1], 2.0 * sg[1] * q[2], 2.0 * sg[2] * q[3])


def _inv(h, q, out, tag):
    h.out(tag, out, mod_sign=tag.startswith('itzhack'))
    h.check(f'{tag}: |out| == 1', h.is_unit(out))
    h.check(f'{tag}: out == +-q', h.same_quat(out, q))


FD = ['ahrs.common.dcm:DCM.to_quaternion', 'ahrs.common.dcm:DCM.__new__', 'ahrs.common.dcm:_assert_SO3',
      'ahrs.common.quaternion:Quaternion.from_DCM', 'ahrs.common.quaternion:QuaternionArray.from_DCM']


def _mk(method, route, closed, kw=None, tiers=('quick', 'thorough'), kf=None, max_paths=64):
    kw = kw or {}
    name = f"C02/{method}{'' if not kw else '.' + '.'.join(f'{k}{v}' for k, v in kw.items())}/{route}"

    @harness(name, tiers=tiers, functions=FD + [f'ahrs.common.orientation:{method}'], max_paths=max_paths,
             bounds=f'paths<={max_paths}', stubs=['np.linalg.eig: certificate contract'] if method == 'itzhack' else [])
    def hfn(h, method=method, route=route, closed=closed, kw=kw):
        q = h.unit_quat('q')
        if closed:
            _closed_domain(h, q)
        R = rot.R_of_q(q)
        if method != 'itzhack':
            _strata(h, q)
        h.lemma_rotation(R)
        if method == 'itzhack':
            eigstub.install_itzhack(h, q, kw.get('version', 3))
        out = _route(h, R, route, method, **kw)
        if method == 'hughes':
            # KF-C02-hughes-shortcut: isclose(trace, 3) returns the identity for small non-zero rotations
            small = h.kf('KF-C02-hughes-shortcut', h.le(4.0 * (1.0 - q[0] * q[0]), 3.001e-5))
            h.out('out', out)
            h.check(f'{method}: out == +-q (outside KF-C02-hughes-shortcut)', small | h.eq_up_to_sign(out, q))
            h.check(f'{method}: inside the shortcut region the result is the identity (known defect only)',
                    (~h.le(4.0 * (1.0 - q[0] * q[0]), 2.999e-5)) | h.eq(out, np.array([1.0, 0.0, 0.0, 0.0])))
            h.check(f'{method}: |out| == 1', h.is_unit(out))
        else:
            _inv(h, q, out, method)
    hfn.__doc__ = f"{method}{kw} through {route}: returns +-q, unit norm, all divisions/sqrt defined"
    return hfn


for _m, _closed in (('shepperd', False), ('chiaverini', True), ('hughes', True), ('sarabandi', True)):
    _mp = 256 if _m == 'sarabandi' else 64
    _mk(_m, 'DCM.to_quaternion', _closed, max_paths=_mp)
    _mk(_m, 'Quaternion(dcm=)', _closed, tiers=('thorough',), max_paths=_mp)
    if _m != 'hughes':
        _mk(_m, 'QuaternionArray(DCM=)', _closed, tiers=('thorough',) if _m != 'shepperd' else ('quick', 'thorough'), max_paths=_mp)
_mk('sarabandi', 'DCM.to_quaternion', True, kw=dict(threshold=0.5), tiers=('thorough',), max_paths=256)
for _v in (1, 2, 3):
    _mk('itzhack', 'DCM.to_quaternion', False, kw=dict(version=_v))
    _mk('itzhack', 'Quaternion(dcm=)', False, kw=dict(version=_v))
    _mk('itzhack', 'QuaternionArray(DCM=)', False, kw=dict(version=_v), tiers=('thorough',))


@harness('C02/hughes/QuaternionArray(DCM=)', functions=FD + ['ahrs.common.orientation:hughes'], bounds='N=1 row')
def hughes_batch(h):
    """hughes through the QuaternionArray(DCM=...) route (3-D branch of hughes)"""
    q = h.unit_quat('q')
    _closed_domain(h, q)
    R = rot.R_of_q(q)
    _strata(h, q)
    out = _route(h, R, 'QuaternionArray(DCM=)', 'hughes')
    h.out('out', out)
    # KF-C02-hughes-batch: the 3-D branch returns the conjugate (no sign flip)
    kf = h.kf('KF-C02-hughes-batch', h.gt(q[1] * q[1] + q[2] * q[2] + q[3] * q[3], 0.0))
    h.check('hughes batch: out == +-q (outside KF-C02-hughes-batch)', kf | h.eq_up_to_sign(out, q))
    h.check('hughes batch: result is +-q or +-conj(q) (known defect only)',
            h.eq_up_to_sign(out, q) | h.eq_up_to_sign(out, rot.qconj(q)))
    h.check('hughes batch: |out| == 1', h.is_unit(out))


@harness('C02/strata.half-turns', functions=['ahrs.common.orientation:shepperd'], tiers=('quick', 'thorough'))
def half_turns(h):
    """shepperd on exact half-turns (w = 0) about an arbitrary axis, and the identity"""
    a = h.unit_vec('a', 3)
    q = np.array([0.0, a[0], a[1], a[2]], dtype=object if h.sym else float)
    R = rot.R_of_q(q)
    out = np.array(DCM(R.copy()).to_quaternion('shepperd'))
    _inv(h, q, out, 'shepperd@half-turn')
    out2 = np.array(DCM(np.identity(3)).to_quaternion('shepperd'))
    h.check('identity', h.eq_up_to_sign(out2, np.array([1.0, 0.0, 0.0, 0.0])))


def _mk_default(route):
    @harness(f'C02/default-method/{route}', functions=FD + ['ahrs.common.orientation:shepperd'], max_paths=64,
             bounds='paths<=64')
    def hf(h, route=route):
        q = h.unit_quat('q')
        R = rot.R_of_q(q)
        _strata(h, q)
        h.lemma_rotation(R)
        if route == 'DCM.to_quaternion':
            out = np.array(DCM(R.copy()).to_quaternion())
        elif route == 'Quaternion(dcm=)':
            out = np.array(Quaternion(dcm=R.copy()))
        else:
            out = np.array(QuaternionArray(DCM=R.copy()[None]))[0]
        _inv(h, q, out, 'default method')
    hf.__doc__ = f"the default method (no method keyword) through {route}: +-q for every rotation including exact half-turns (w = 0)"
    return hf


for _r in ('DCM.to_quaternion', 'Quaternion(dcm=)', 'QuaternionArray(DCM=)'):
    _mk_default(_r)
