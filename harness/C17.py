"""C17 - coordinate-frame transformations are mutually inverse rigid maps."""
import numpy as np
from ahrs.common import frames
from symnp.harness import harness

PROPERTY = dict(
    id='C17',
    explanation="Latitude / longitude / azimuth / elevation are angle atoms in degrees (the functions multiply by DEG2RAD "
                "themselves); offsets and heights are free reals. Round trips are trig-polynomial identities decided by the "
                "solver; inverse-trig results are compared by cross-multiplication.",
    bounds="straight-line code except ecef2geodetic, whose fixed-point loop is explored on the ellipsoid surface stratum h = 0 "
           "only (two iterations reach the fixed point exactly there); loop bound 4",
    wall_limit=dict(quick=150, thorough=600),
    outside=["geodetic -> ECEF -> geodetic: attempted in the thorough tier on the ellipsoid surface only and currently undecided "
             "there (the solvers do not identify the iterates' angle atoms within the wall limit); not claimed", "convergence of the ecef2geodetic iteration for h != 0 (needs the loop body in isolation, not reachable without a "
             "source hook) and its behaviour at the poles in float arithmetic", "rounding"],
)
FF = 'ahrs.common.frames:'


def _latlon(h, sfx=''):
    lat = h.angle('lat' + sfx, 'pm_halfpi', 'deg')
    lon = h.angle('lon' + sfx, 'pm_pi', 'deg')
    return lat, lon


@harness('C17/ecef-enu', functions=[FF + n for n in ('ecef2enu', 'enu2ecef', 'ecef2enuv', 'enu2uvw', 'geodetic2ecef')],
         allowed_exc=(), max_paths=16)
def ecef_enu(h):
    """ECEF -> ENU -> ECEF and ENU -> ECEF -> ENU are identities; ECEF -> ENU preserves distances and maps the origin to 0"""
    lat, lon = _latlon(h)
    hh = h.real('h', -1e4, 1e6)
    x, y, z = h.real('x', -7e6, 7e6), h.real('y', -7e6, 7e6), h.real('z', -7e6, 7e6)
    enu = frames.ecef2enu(x, y, z, lat, lon, hh)
    h.out('enu', enu)
    back = frames.enu2ecef(enu[0], enu[1], enu[2], lat, lon, hh)
    h.out('back', back)
    h.check('ECEF -> ENU -> ECEF', h.eq(back, h.arr([x, y, z])))
    e, n, u = h.real('e', -1e6, 1e6), h.real('n', -1e6, 1e6), h.real('u', -1e6, 1e6)
    P = frames.enu2ecef(e, n, u, lat, lon, hh)
    enu2 = frames.ecef2enu(P[0], P[1], P[2], lat, lon, hh)
    h.check('ENU -> ECEF -> ENU', h.eq(enu2, h.arr([e, n, u])))
    # rigid: distances preserved, origin -> 0
    x2, y2, z2 = h.real('x2', -7e6, 7e6), h.real('y2', -7e6, 7e6), h.real('z2', -7e6, 7e6)
    enu_b = frames.ecef2enu(x2, y2, z2, lat, lon, hh)
    d_enu = sum((enu[i] - enu_b[i]) ** 2 for i in range(3))
    d_ecef = (x - x2) ** 2 + (y - y2) ** 2 + (z - z2) ** 2
    h.check('distances preserved', h.eq(d_enu, d_ecef))
    O = frames.geodetic2ecef(lat, lon, hh)
    h.check('origin -> 0', h.eq(frames.ecef2enu(O[0], O[1], O[2], lat, lon, hh), np.zeros(3)))
    uvw = frames.enu2uvw(e, n, u, lat, lon)
    h.check('enu2uvw / ecef2enuv inverse', h.eq(frames.ecef2enuv(uvw[0], uvw[1], uvw[2], 0.0, 0.0, 0.0, lat, lon), h.arr([e, n, u])))


@harness('C17/aer-dca-ned', functions=[FF + n for n in ('enu2aer', 'aer2enu', 'enu2dca', 'dca2enu', 'ned2enu', 'enu2ned',
                                                          '_ltp_transformation')], max_paths=32)
def aer_dca(h):
    """ENU -> AER -> ENU, ENU -> DCA -> ENU, NED -> ENU -> NED are identities"""
    e, n, u = h.real('e', -1e3, 1e3), h.real('n', -1e3, 1e3), h.real('u', -1e3, 1e3)
    h.assume(h.ge(e * e + n * n, 1e-6))
    for deg in (True, False):
        aer = frames.enu2aer(e, n, u, deg=deg)
        back = frames.aer2enu(aer[0], aer[1], aer[2], deg=deg)
        h.out(f'aer2enu(deg={deg})', back)
        h.check(f'ENU -> AER -> ENU (deg={deg})', h.eq(back, h.arr([e, n, u])))
    ang = h.angle('ang', 'pm_pi', 'deg')
    dca = frames.enu2dca(e, n, u, ang)
    h.check('ENU -> DCA -> ENU', h.eq(frames.dca2enu(dca[0], dca[1], dca[2], ang), h.arr([e, n, u])))
    angr = h.angle('angr', 'pm_pi')
    dca = frames.enu2dca(e, n, u, angr, deg=False)
    h.check('ENU -> DCA -> ENU (radians)', h.eq(frames.dca2enu(dca[0], dca[1], dca[2], angr, deg=False), h.arr([e, n, u])))
    v = h.arr([e, n, u])
    h.check('NED -> ENU -> NED', h.eq(frames.enu2ned(frames.ned2enu(v)), v))
    V = h.arr([[e, n, u], [u, e, n]])
    h.check('NED -> ENU -> NED (N,3)', h.eq(frames.enu2ned(frames.ned2enu(V)), V))
    h.check('ned2enu swaps north/east and negates down', h.eq(frames.ned2enu(v), h.arr([n, e, -u])))


@harness('C17/llf', functions=[FF + 'llf2ecef', FF + 'ecef2llf'])
def llf(h):
    """llf2ecef and ecef2llf are orthogonal and transposes of each other"""
    lat = h.angle('lat', 'pm_halfpi')
    lon = h.angle('lon', 'pm_pi')
    A = frames.llf2ecef(lat, lon)
    B = frames.ecef2llf(lat, lon)
    h.out('llf2ecef', A)
    I = np.identity(3)
    h.check('llf2ecef == ecef2llf^T', h.eq(A, B.T))
    h.check('llf2ecef orthogonal', h.eq(A @ A.T, I.astype(object) if h.sym else I))
    h.check('ecef2llf orthogonal', h.eq(B @ B.T, I.astype(object) if h.sym else I))


@harness('C17/geodetic.surface', tiers=('thorough',), functions=[FF + 'geodetic2ecef', FF + 'ecef2geodetic'], max_paths=8, max_decisions=10,
         bounds='height 0 (ellipsoid surface); loop iterations <= 4')
def geodetic_surface(h):
    """geodetic -> ECEF -> geodetic returns (lat, lon, 0) for points on the ellipsoid, |lat| <= 89.9 deg"""
    lat = h.angle('lat', 'pm_halfpi', 'deg', lo=-89.9, hi=89.9)
    lon = h.angle('lon', 'pm_pi', 'deg', lo=-179.9, hi=179.9)
    P = frames.geodetic2ecef(lat, lon, 0.0)
    h.out('ecef', P)
    out = frames.ecef2geodetic(P[0], P[1], P[2])
    h.check('latitude', h.angle_eq(out[0], lat, unit='deg'))
    h.check('longitude', h.angle_eq(out[1], lon, unit='deg'))
    h.check('height', h.eq(out[2], 0.0, tol=1e-6))
