import z3, time, sys
def R_of(w,x,y,z):
    return [[1-2*(y*y+z*z), 2*(x*y-w*z), 2*(x*z+w*y)],
            [2*(x*y+w*z), 1-2*(x*x+z*z), 2*(y*z-w*x)],
            [2*(x*z-w*y), 2*(w*x+y*z), 1-2*(x*x+y*y)]]
def mm(A,B): return [[sum(A[i][k]*B[k][j] for k in range(3)) for j in range(3)] for i in range(3)]
def T(A): return [[A[j][i] for j in range(3)] for i in range(3)]
def prod(p,q):
    return (p[0]*q[0]-p[1]*q[1]-p[2]*q[2]-p[3]*q[3],
            p[0]*q[1]+p[1]*q[0]+p[2]*q[3]-p[3]*q[2],
            p[0]*q[2]-p[1]*q[3]+p[2]*q[0]+p[3]*q[1],
            p[0]*q[3]+p[1]*q[2]-p[2]*q[1]+p[3]*q[0])
w,x,y,z = z3.Reals('w x y z'); a,b,c,d = z3.Reals('a b c d')
unit_q = w*w+x*x+y*y+z*z==1; unit_p = a*a+b*b+c*c+d*d==1
def run(name, cons, tmo=60000):
    s = z3.Solver(); s.set('timeout', tmo)
    for c_ in cons: s.add(c_)
    t=time.time(); r=s.check(); print(name, r, round(time.time()-t,2)); sys.stdout.flush()
    return s
R = R_of(w,x,y,z)
RRt = mm(R,T(R))
run('orth all entries', [unit_q, z3.Or([RRt[i][j] != (1 if i==j else 0) for i in range(3) for j in range(3)])])
# determinant
det = (R[0][0]*(R[1][1]*R[2][2]-R[1][2]*R[2][1]) - R[0][1]*(R[1][0]*R[2][2]-R[1][2]*R[2][0]) + R[0][2]*(R[1][0]*R[2][1]-R[1][1]*R[2][0]))
run('det', [unit_q, det != 1])
P = R_of(a,b,c,d)
pq = prod((a,b,c,d),(w,x,y,z))
Rpq = R_of(*pq); PR = mm(P,R)
run('homomorphism all', [unit_q, unit_p, z3.Or([Rpq[i][j] != PR[i][j] for i in range(3) for j in range(3)])])
for i in range(3):
    for j in range(3):
        run(f'hom {i}{j}', [unit_q, unit_p, Rpq[i][j] != PR[i][j]], 30000)
