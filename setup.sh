#!/bin/sh
# Builds the overlay venv /verif/.venv (offline): /venv's python + site-packages (repo's numpy) + z3-solver, cvc5 wheels.
set -e
cd "$(dirname "$0")"
if [ -x .venv/bin/python ] && .venv/bin/python -c "import z3, numpy, jsonschema" 2>/dev/null; then
  exit 0
fi
rm -rf .venv
/venv/bin/python -m venv .venv
SP=$(.venv/bin/python -c "import sysconfig; print(sysconfig.get_paths()['purelib'])")
printf '%s\n' "/venv/lib/python3.12/site-packages" > "$SP/zz_base_venv.pth"
PIP_NO_INDEX=1 .venv/bin/python -m pip install -q --no-index --find-links /opt/veriftools/wheels z3-solver cvc5 jsonschema >/dev/null 2>&1 || \
PIP_NO_INDEX=1 .venv/bin/python -m pip install -q --no-index --find-links /opt/veriftools/wheels z3-solver jsonschema
.venv/bin/python -c "import z3, numpy; print('symnp venv ok: z3', z3.get_version_string(), 'numpy', numpy.__version__)"
